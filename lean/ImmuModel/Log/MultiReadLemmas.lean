/-
C17 — multiapp mirror model: `ReadAt` (inside the logical size, across chunk boundaries, through the handle
cache), `SetOffset`, `DiscardUpto` and close + re-open refine the byte-log spec and preserve `MInv`.
Main statements: `readAt_spec`, `setOffset_spec`, `setOffset_rejects_beyond`, `discardUpto_spec`,
`discardUpto_preserves_reads`, `reopen_spec`.  Helper lemmas carry the prefix `rd_`.
-/
import ImmuModel.Log.MultiBase

namespace ImmuModel.Log

theorem rd_acc_extend {B acc d : Bytes} {off : Nat} (ha : acc = (B.drop off).take acc.length)
    (hd : d = (B.drop (off + acc.length)).take d.length) : acc ++ d = (B.drop off).take (acc ++ d).length := by
  rw [List.length_append, List.take_add, List.drop_drop, ← ha, ← hd]

namespace SingleApp

theorem rd_readAt_inside {s : SingleApp} (h : Inv s) (hc : s.closed = false) (loc rem : Nat)
    (hs : ReadSafe s loc rem) (hle : loc ≤ (abs s).size) :
    s.readAt (some rem) (loc : Int) =
      (((abs s).bytes.drop loc).take rem,
        if (((abs s).bytes.drop loc).take rem).length < rem then some .eof else none) := by
  have hgt : ¬ (loc > (abs s).size) := by omega
  simp only [readAt, hc, Bool.false_eq_true, ↓reduceIte, readAtCore_spec h loc rem hs, specRead, ByteLog.readAt, hgt,
    decide_eq_true_eq]

end SingleApp

namespace MultiApp

/-! ### helpers: states that differ only in the handle cache -/

theorem rd_minv_with_cache {m : MultiApp} (h : MInv m) (c : Cache)
    (hc : ∀ p ∈ c.pairs, p.1 < m.curId → p.2 = m.fileSize) : MInv { m with cache := c } :=
  ⟨h.fs_pos, h.cur_inv, h.cur_disk, h.cur_len, h.cur_off, h.below_full, h.all_le, hc, h.top_ok, h.cfg⟩

theorem rd_abs_with_cache (m : MultiApp) (c : Cache) : abs { m with cache := c } = abs m := by
  have hp : ∀ k, prefixBytes { m with cache := c } k = prefixBytes m k := by
    intro k
    induction k with
    | zero => rfl
    | succ k ih => simp only [prefixBytes, ih]; rfl
  simp only [abs, hp]

/-- `prefixBytes` only depends on the chunks below its bound -/
theorem rd_prefixBytes_congr {m m' : MultiApp} (hfs : m'.fileSize = m.fileSize) :
    ∀ k, (∀ i, i < k → m'.disk i = m.disk i) → prefixBytes m' k = prefixBytes m k := by
  intro k
  induction k with
  | zero => intro _; rfl
  | succ k ih =>
    intro hd
    simp only [prefixBytes, ih (fun i hi => hd i (by omega))]
    congr 1
    simp only [chunkOr, hd k (by omega), hfs]

theorem rd_prefixBytes_split {m : MultiApp} (i : Nat) :
    ∀ k, i < k → ∃ rest, prefixBytes m k = prefixBytes m i ++ chunkOr m i ++ rest := by
  intro k
  induction k with
  | zero => intro h; omega
  | succ k ih =>
    intro hk
    by_cases hik : i = k
    · subst hik
      exact ⟨[], by simp [prefixBytes]⟩
    · obtain ⟨rest, hr⟩ := ih (by omega)
      exact ⟨rest ++ chunkOr m k, by simp only [prefixBytes, hr, List.append_assoc]⟩

/-- the logical content from position `i*fileSize + loc` on starts with the rest of chunk `i` -/
theorem rd_abs_drop_chunk {m : MultiApp} (h : MInv m) {i loc : Nat} (hi : i < m.curId) (hl : loc ≤ m.fileSize) :
    ∃ rest, (abs m).bytes.drop (i * m.fileSize + loc) = (chunkOr m i).drop loc ++ rest := by
  obtain ⟨rest, hr⟩ := rd_prefixBytes_split (m := m) i m.curId hi
  refine ⟨rest ++ (SingleApp.abs m.cur).bytes, ?_⟩
  have hlen := prefixBytes_length h i (by omega)
  have hcl := chunkOr_length h hi
  simp only [abs, hr, List.append_assoc]
  rw [List.drop_append, List.drop_of_length_le (by omega), hlen, List.nil_append]
  have : i * m.fileSize + loc - i * m.fileSize = loc := by omega
  rw [this, List.drop_append_of_le_length (by omega)]

theorem rd_abs_take_chunk {m : MultiApp} (h : MInv m) {i loc : Nat} (hi : i < m.curId) (hl : loc ≤ m.fileSize) :
    (abs m).bytes.take (i * m.fileSize + loc) = prefixBytes m i ++ (chunkOr m i).take loc := by
  obtain ⟨rest, hr⟩ := rd_prefixBytes_split (m := m) i m.curId hi
  have hlen := prefixBytes_length h i (by omega)
  have hcl := chunkOr_length h hi
  simp only [abs, hr, List.append_assoc]
  rw [List.take_append, List.take_of_length_le (by omega), hlen]
  have : i * m.fileSize + loc - i * m.fileSize = loc := by omega
  rw [this, List.take_append_of_le_length (by omega)]

theorem rd_abs_drop_cur {m : MultiApp} (h : MInv m) (loc : Nat) :
    (abs m).bytes.drop (m.curId * m.fileSize + loc) = (SingleApp.abs m.cur).bytes.drop loc := by
  have hlen := prefixBytes_length h m.curId (Nat.le_refl _)
  simp only [abs]
  rw [List.drop_append, List.drop_of_length_le (by omega), hlen, List.nil_append]
  congr 1; omega

theorem rd_abs_take_cur {m : MultiApp} (h : MInv m) (loc : Nat) :
    (abs m).bytes.take (m.curId * m.fileSize + loc) = prefixBytes m m.curId ++ (SingleApp.abs m.cur).bytes.take loc := by
  have hlen := prefixBytes_length h m.curId (Nat.le_refl _)
  simp only [abs]
  rw [List.take_append, List.take_of_length_le (by omega), hlen]
  congr 2; omega

/-! ### `appendableFor` -/

theorem rd_handle_full (m : MultiApp) (f : Bytes) : m.handle f f.length = SingleApp.openFile f m.sopts m.mdata := by
  simp [handle, SingleApp.openFile]

theorem rd_appendableFor_cur (m : MultiApp) (off : Nat) (h : off / m.fileSize = m.curId) :
    m.appendableFor off = (m, some m.cur) := by
  simp [appendableFor, h]

/-- a chunk below the current one: the handle (cached or freshly opened) is a freshly opened file -/
theorem rd_appendableFor_below {m : MultiApp} (h : MInv m) (off : Nat) (hlt : off / m.fileSize < m.curId)
    (hp : m.disk (off / m.fileSize) ≠ none) :
    ∃ c f, m.appendableFor off = ({ m with cache := c }, some (SingleApp.openFile f m.sopts m.mdata)) ∧
      m.disk (off / m.fileSize) = some f ∧ f.length = m.fileSize ∧ MInv { m with cache := c } := by
  have hne : ¬ (off / m.fileSize = m.curId) := by omega
  cases hd : m.disk (off / m.fileSize) with
  | none => exact absurd hd hp
  | some f =>
    have hfl : f.length = m.fileSize := h.below_full _ f hlt hd
    simp only [appendableFor, hne, ↓reduceIte, hd]
    cases hg : m.cache.get (off / m.fileSize) with
    | some cf =>
      obtain ⟨c, fo⟩ := cf
      obtain ⟨hpe, hmem⟩ := Cache.get_pairs hg
      have hfo : fo = m.fileSize := h.cache_ok _ hmem hlt
      refine ⟨c, f, ?_, rfl, hfl, rd_minv_with_cache h c (by rw [hpe]; exact h.cache_ok)⟩
      simp only [hfo, ← hfl, rd_handle_full]
    | none =>
      simp only [rd_handle_full]
      have hput : ∀ p ∈ (m.cache.put (off / m.fileSize) f.length).1.pairs, p.1 < m.curId → p.2 = m.fileSize := by
        intro p hp hlt'
        rcases Cache.put_pairs hp with h1 | h1
        · rw [h1]; exact hfl
        · exact h.cache_ok p h1.1 hlt'
      cases hg2 : (m.cache.put (off / m.fileSize) f.length).1.get (off / m.fileSize) with
      | none => exact ⟨_, f, rfl, rfl, hfl, rd_minv_with_cache h _ hput⟩
      | some cf =>
        obtain ⟨c, fo⟩ := cf
        obtain ⟨hpe, _⟩ := Cache.get_pairs hg2
        exact ⟨c, f, rfl, rfl, hfl, rd_minv_with_cache h c (by rw [hpe]; exact hput)⟩


/-! ### `ReadAt` -/

/-- the part of the read that falls into the current chunk does not touch rolled-back file bytes -/
def CurSafe (m : MultiApp) (off n : Nat) : Prop :=
  SingleApp.NoStaleTail m.cur ∨ off + n ≤ m.curId * m.fileSize + m.cur.fileOffset ∨ m.curId * m.fileSize + m.cur.fileOffset ≤ off

theorem readLoop_spec (n off : Nat) : ∀ (fuel : Nat) (m : MultiApp) (acc : Bytes),
    MInv m → m.closed = false → off + n ≤ (abs m).size → Present m off → CurSafe m off n →
    acc.length ≤ n → acc = ((abs m).bytes.drop off).take acc.length → n - acc.length < fuel →
    ∃ c, readLoop fuel m n off acc = ({ m with cache := c }, ((abs m).bytes.drop off).take n, none) ∧
      MInv { m with cache := c } := by
  intro fuel
  induction fuel with
  | zero => intro m acc _ _ _ _ _ _ _ hf; omega
  | succ fuel ih =>
    intro m acc h hc hin hp hs hal hacc hf
    unfold readLoop
    by_cases hge : acc.length ≥ n
    · have : acc.length = n := by omega
      simp only [hge, ↓reduceIte]
      refine ⟨m.cache, ?_, h⟩
      rw [← this, ← hacc]
    · have hcl : (m.closed = true) = False := by simp [hc]
      simp only [hge, ↓reduceIte, hcl]
      have hsz := abs_size h
      unfold offset at hsz
      have hfs := h.fs_pos
      have hco := h.cur_off
      have hdm := Nat.div_add_mod (off + acc.length) m.fileSize
      have hml := Nat.mod_lt (off + acc.length) hfs
      have hmc : m.fileSize * ((off + acc.length) / m.fileSize) = (off + acc.length) / m.fileSize * m.fileSize :=
        Nat.mul_comm _ _
      have hile : (off + acc.length) / m.fileSize < m.curId + 1 := by
        rw [Nat.div_lt_iff_lt_mul hfs, Nat.succ_mul]; omega
      -- the continuation after a successful partial read
      have cont : ∀ (c : Cache) (d : Bytes), MInv { m with cache := c } →
          d = ((abs m).bytes.drop (off + acc.length)).take d.length → 0 < d.length → d.length ≤ n - acc.length →
          ∃ c', readLoop fuel { m with cache := c } n off (acc ++ d)
            = ({ m with cache := c' }, ((abs m).bytes.drop off).take n, none) ∧ MInv { m with cache := c' } := by
        intro c d hi hd hd0 hdl
        have := ih { m with cache := c } (acc ++ d) hi hc (by rw [rd_abs_with_cache]; exact hin) hp hs
          (by simp only [List.length_append]; omega) (by rw [rd_abs_with_cache]; exact rd_acc_extend hacc hd)
          (by simp only [List.length_append]; omega)
        rw [rd_abs_with_cache] at this
        exact this
      by_cases hcur : (off + acc.length) / m.fileSize = m.curId
      · -- current chunk
        rw [rd_appendableFor_cur m _ hcur]
        simp only
        rw [hcur] at hmc hdm
        have hrs : SingleApp.ReadSafe m.cur ((off + acc.length) % m.fileSize) (n - acc.length) := by
          rcases hs with hs | hs | hs
          · exact Or.inr (Or.inr hs)
          · left; omega
          · right; left; omega
        have hcs := SingleApp.abs_size h.cur_inv
        rw [SingleApp.rd_readAt_inside h.cur_inv h.cfg.1 _ _ hrs (by omega)]
        have hdrop := rd_abs_drop_cur h ((off + acc.length) % m.fileSize)
        have hoffr : m.curId * m.fileSize + (off + acc.length) % m.fileSize = off + acc.length := by omega
        rw [hoffr] at hdrop
        have hlen : (((SingleApp.abs m.cur).bytes.drop ((off + acc.length) % m.fileSize)).take (n - acc.length)).length
            = n - acc.length := by
          simp only [List.length_take, List.length_drop]
          simp only [ByteLog.size] at hcs
          omega
        simp only [hlen, Nat.lt_irrefl, ↓reduceIte]
        have := cont m.cache _ h (by rw [hlen, hdrop]) (by omega) (by omega)
        exact this
      · -- a chunk below the current one
        have hlt : (off + acc.length) / m.fileSize < m.curId := by omega
        have hpres : m.disk ((off + acc.length) / m.fileSize) ≠ none :=
          hp _ (Nat.div_le_div_right (by omega)) hlt
        obtain ⟨c, f, hap, hdf, hfl, hi⟩ := rd_appendableFor_below h (off + acc.length) hlt hpres
        rw [hap]
        simp only
        have habs := SingleApp.openFile_abs f m.sopts m.mdata
        rw [SingleApp.rd_readAt_inside (SingleApp.openFile_inv f m.sopts m.mdata) rfl _ _
          (Or.inr (Or.inr (SingleApp.openFile_noStale f m.sopts m.mdata)))
          (by rw [habs]; simp only [ByteLog.size]; omega)]
        rw [habs]
        simp only
        obtain ⟨rest, hdrop⟩ := rd_abs_drop_chunk h hlt (Nat.le_of_lt hml)
        have hoffr : (off + acc.length) / m.fileSize * m.fileSize + (off + acc.length) % m.fileSize = off + acc.length := by
          omega
        rw [hoffr] at hdrop
        have hck : chunkOr m ((off + acc.length) / m.fileSize) = f := by simp only [chunkOr, hdf]
        rw [hck] at hdrop
        have hlen : ((f.drop ((off + acc.length) % m.fileSize)).take (n - acc.length)).length
            = min (n - acc.length) (m.fileSize - (off + acc.length) % m.fileSize) := by
          simp only [List.length_take, List.length_drop, hfl]
        have hd : (f.drop ((off + acc.length) % m.fileSize)).take (n - acc.length)
            = ((abs m).bytes.drop (off + acc.length)).take
                ((f.drop ((off + acc.length) % m.fileSize)).take (n - acc.length)).length := by
          rw [hdrop, hlen, List.take_append_of_le_length (by simp only [List.length_drop, hfl]; omega)]
          rw [List.take_eq_take_iff]
          simp only [List.length_drop, hfl]
          omega
        have := cont c _ hi hd (by rw [hlen]; omega) (by rw [hlen]; omega)
        by_cases hlt2 : ((f.drop ((off + acc.length) % m.fileSize)).take (n - acc.length)).length < n - acc.length
        · have hpos : ((f.drop ((off + acc.length) % m.fileSize)).take (n - acc.length)).length > 0 := by
            rw [hlen]; omega
          simp only [hlt2, ↓reduceIte, hpos]
          exact this
        · simp only [hlt2, ↓reduceIte]
          exact this

theorem readAt_spec {m : MultiApp} (h : MInv m) (hc : m.closed = false) (off n : Nat) (hn : 0 < n)
    (hin : off + n ≤ (abs m).size) (hp : Present m off) (hs : CurSafe m off n) :
    (m.readAt n off).2 = (((abs m).bytes.drop off).take n, none) ∧
    MInv (m.readAt n off).1 ∧ abs (m.readAt n off).1 = abs m ∧
    (m.readAt n off).1.disk = m.disk ∧ (m.readAt n off).1.cur = m.cur ∧ (m.readAt n off).1.curId = m.curId ∧
    (m.readAt n off).1.closed = m.closed ∧ (m.readAt n off).1.readOnly = m.readOnly ∧ (m.readAt n off).1.fileSize = m.fileSize := by
  have hn0 : ¬ (n = 0) := by omega
  obtain ⟨c, hr, hi⟩ := readLoop_spec n off (n + 1) m [] h hc hin hp hs (by simp) (by simp) (by simp)
  have hra : m.readAt n off = readLoop (n + 1) m n off [] := by simp only [readAt, hn0, ↓reduceIte]
  rw [hra, hr]
  exact ⟨rfl, hi, rd_abs_with_cache m c, rfl, rfl, rfl, rfl, rfl, rfl⟩

/-! ### `SetOffset` -/

theorem rd_foldl_pop_pairs : ∀ (l : List Nat) (c : Cache) (p : Nat × Nat),
    p ∈ (l.foldl (fun c i => c.pop i) c).pairs → p ∈ c.pairs := by
  intro l
  induction l with
  | nil => intro c p h; exact h
  | cons a l ih =>
    intro c p h
    simp only [List.foldl_cons] at h
    exact (Cache.pop_pairs (ih _ _ h)).1

theorem rd_setOffset_same_eq {m : MultiApp} (hc : m.closed = false) (hro : m.readOnly = false)
    {off : Nat} (hlt : off < m.offset) (heq : m.curId = off / m.fileSize) :
    m.setOffset off = (m.withCur (m.cur.setOffset ((off % m.fileSize : Nat) : Int)).1,
                       (m.cur.setOffset ((off % m.fileSize : Nat) : Int)).2) := by
  have h1 : ¬ (off > m.offset) := by omega
  have h2 : ¬ (off = m.offset) := by omega
  have h3 : ¬ (m.curId ≠ off / m.fileSize) := by simp [heq]
  have hc' : (m.closed = true) = False := by simp [hc]
  have hro' : (m.readOnly = true) = False := by simp [hro]
  simp only [setOffset, hc', hro', ↓reduceIte, h1, h2, h3]

theorem rd_setOffset_cross_eq {m : MultiApp} (hc : m.closed = false) (hro : m.readOnly = false)
    (hcc : m.cur.closed = false) (hcro : m.cur.readOnly = false)
    {off : Nat} (hlt : off < m.offset) (hne : m.curId ≠ off / m.fileSize) {f : Bytes}
    (hd : m.disk (off / m.fileSize) = some f) :
    m.setOffset off =
      ({ m with curId := off / m.fileSize,
                cur := ((SingleApp.openFile f m.sopts m.mdata).setOffset ((off % m.fileSize : Nat) : Int)).1,
                cache := (List.range' (off / m.fileSize) (m.curId - off / m.fileSize)).foldl (fun c i => c.pop i) m.cache,
                disk := upd (upd m.disk m.curId (some (SingleApp.flush m.cur).file)) (off / m.fileSize)
                  (some ((SingleApp.openFile f m.sopts m.mdata).setOffset ((off % m.fileSize : Nat) : Int)).1.file) },
       ((SingleApp.openFile f m.sopts m.mdata).setOffset ((off % m.fileSize : Nat) : Int)).2) := by
  have h1 : ¬ (off > m.offset) := by omega
  have h2 : ¬ (off = m.offset) := by omega
  have h4 : ¬ (off / m.fileSize = m.curId) := fun h => hne h.symm
  have hc' : (m.closed = true) = False := by simp [hc]
  have hro' : (m.readOnly = true) = False := by simp [hro]
  have hcc' : (m.cur.closed = true) = False := by simp [hcc]
  have hcro' : (!m.cur.readOnly) = true := by simp [hcro]
  simp only [setOffset, hc', hro', ↓reduceIte, h1, h2, hne, ne_eq, not_false_eq_true,
    SingleApp.close, hcc', hcro', withCur, upd, h4, hd]
  rfl


theorem setOffset_spec {m : MultiApp} (h : MInv m) (hc : m.closed = false) (hro : m.readOnly = false)
    (off : Nat) (hle : off ≤ (abs m).size) (hp : off / m.fileSize < m.curId → m.disk (off / m.fileSize) ≠ none) :
    (m.setOffset off).2 = none ∧ abs (m.setOffset off).1 = ⟨(abs m).bytes.take off⟩ ∧ MInv (m.setOffset off).1 ∧
    (m.setOffset off).1.closed = false ∧ (m.setOffset off).1.readOnly = false ∧ (m.setOffset off).1.fileSize = m.fileSize ∧
    (∀ lo, lo ≤ off → Present m lo → Present (m.setOffset off).1 lo) := by
  have hsz := abs_size h
  have hle0 := hle
  rw [hsz] at hle
  have hc' : (m.closed = true) = False := by simp [hc]
  have hro' : (m.readOnly = true) = False := by simp [hro]
  by_cases heq : off = m.offset
  · have h1 : ¬ (off > m.offset) := by omega
    have hr : m.setOffset off = (m, none) := by
      simp only [setOffset, hc', hro', ↓reduceIte, heq, gt_iff_lt, Nat.lt_irrefl]
    rw [hr]
    refine ⟨rfl, ?_, h, hc, hro, rfl, fun _ _ hp => hp⟩
    show abs m = _
    rw [List.take_of_length_le (l := (abs m).bytes) (by simp only [ByteLog.size] at hsz; omega)]
  · have hlt : off < m.offset := by omega
    have hfs := h.fs_pos
    have hco := h.cur_off
    have hdm := Nat.div_add_mod off m.fileSize
    have hml := Nat.mod_lt off hfs
    have hmc : m.fileSize * (off / m.fileSize) = off / m.fileSize * m.fileSize := Nat.mul_comm _ _
    have hoff : m.offset = m.curId * m.fileSize + m.cur.offset := rfl
    have hile : off / m.fileSize < m.curId + 1 := by
      rw [Nat.div_lt_iff_lt_mul hfs, Nat.succ_mul]; omega
    have hcro : m.cur.readOnly = false := h.cfg.2.1.trans hro
    obtain ⟨g1, g2, g3, g4, g5, g6⟩ := h.cfg
    by_cases hcur : m.curId = off / m.fileSize
    · -- same chunk
      rw [rd_setOffset_same_eq hc hro hlt hcur]
      rw [← hcur] at hmc hdm
      have hcs := SingleApp.abs_size h.cur_inv
      obtain ⟨s1, s2, s3, s4, _⟩ := SingleApp.setOffset_spec h.cur_inv g1 hcro (off % m.fileSize) (by omega)
      have hfile := SingleApp.setOffset_file m.cur ((off % m.fileSize : Nat) : Int)
      have hpre : prefixBytes (m.withCur (m.cur.setOffset ((off % m.fileSize : Nat) : Int)).1) m.curId
          = prefixBytes m m.curId := by
        refine rd_prefixBytes_congr (m := m) ?_ _ ?_
        · rfl
        intro i hi
        have : i ≠ m.curId := Nat.ne_of_lt hi
        simp only [withCur, upd, this, ↓reduceIte]
      have hoffr : m.curId * m.fileSize + off % m.fileSize = off := by omega
      have htk := rd_abs_take_cur h (off % m.fileSize)
      rw [hoffr] at htk
      have hso : (m.cur.setOffset ((off % m.fileSize : Nat) : Int)).1.offset ≤ m.fileSize := by
        rw [← SingleApp.abs_size s2, s4]
        simp only [ByteLog.size, List.length_take]
        omega
      obtain ⟨k1, k2, k3, k4, k5, k6⟩ := s3
      refine ⟨s1, ?_, ?_, hc, hro, rfl, ?_⟩
      · show (⟨prefixBytes (m.withCur _) m.curId ++ (SingleApp.abs (m.cur.setOffset _).1).bytes⟩ : ByteLog) = _
        rw [hpre, s4, htk]
      · refine ⟨hfs, s2, ?_, ?_, hso, ?_, ?_, h.cache_ok, ⟨h.top_ok.1, ?_⟩, ?_⟩
        · simp only [withCur, upd, ↓reduceIte]
        · show (m.cur.setOffset _).1.file.length ≤ m.fileSize
          rw [hfile]; exact h.cur_len
        · intro i f hi hd
          have : i ≠ m.curId := Nat.ne_of_lt hi
          simp only [withCur, upd, this, ↓reduceIte] at hd
          exact h.below_full i f hi hd
        · intro i f hd
          simp only [withCur, upd] at hd
          by_cases hi : i = m.curId
          · simp only [hi, ↓reduceIte, Option.some.injEq] at hd
            rw [← hd, hfile]; exact h.cur_len
          · simp only [hi, ↓reduceIte] at hd
            exact h.all_le i f hd
        · intro i hi
          have hi' : m.top ≤ i := hi
          have : i ≠ m.curId := by have := h.top_ok.1; omega
          simp only [withCur, upd, this, ↓reduceIte]
          exact h.top_ok.2 i hi'
        · show (m.cur.setOffset _).1.closed = false ∧ (m.cur.setOffset _).1.readOnly = m.readOnly ∧
            (m.cur.setOffset _).1.retryableSync = m.retryableSync ∧ (m.cur.setOffset _).1.autoSync = m.autoSync ∧
            (m.cur.setOffset _).1.mdata = m.mdata ∧ (m.readOnly = false → (m.cur.setOffset _).1.cap = m.cap ∧ 0 < m.cap)
          rw [k1, k2, k3, k4, k5, k6]
          exact ⟨g1, g2, g3, g4, g5, g6⟩
      · intro lo _ hpl i h1 h2
        have : i ≠ m.curId := Nat.ne_of_lt h2
        simp only [withCur, upd, this, ↓reduceIte]
        exact hpl i h1 h2
    · -- an earlier chunk
      have hlt2 : off / m.fileSize < m.curId := by omega
      cases hd : m.disk (off / m.fileSize) with
      | none => exact absurd hd (hp hlt2)
      | some f =>
        have hfl : f.length = m.fileSize := h.below_full _ f hlt2 hd
        rw [rd_setOffset_cross_eq hc hro g1 hcro hlt hcur hd]
        have hoi := SingleApp.openFile_inv f m.sopts m.mdata
        have hoa := SingleApp.openFile_abs f m.sopts m.mdata
        obtain ⟨s1, s2, s3, s4, _⟩ := SingleApp.setOffset_spec hoi rfl hro (off % m.fileSize)
          (by rw [hoa]; simp only [ByteLog.size]; omega)
        have hfile := SingleApp.setOffset_file (SingleApp.openFile f m.sopts m.mdata) ((off % m.fileSize : Nat) : Int)
        have hof : (SingleApp.openFile f m.sopts m.mdata).file = f := rfl
        rw [hof] at hfile
        rw [hoa] at s4
        have hoffr : off / m.fileSize * m.fileSize + off % m.fileSize = off := by omega
        have htk := rd_abs_take_chunk h hlt2 (Nat.le_of_lt hml)
        rw [hoffr] at htk
        have hck : chunkOr m (off / m.fileSize) = f := by simp only [chunkOr, hd]
        rw [hck] at htk
        have hso : ((SingleApp.openFile f m.sopts m.mdata).setOffset ((off % m.fileSize : Nat) : Int)).1.offset
            ≤ m.fileSize := by
          rw [← SingleApp.abs_size s2, s4]
          simp only [ByteLog.size, List.length_take]
          omega
        obtain ⟨k1, k2, k3, k4, k5, k6⟩ := s3
        have hflush : (SingleApp.flush m.cur).file.length ≤ m.fileSize := by
          have := (SingleApp.flush_file_len h.cur_inv).2
          have := h.cur_len
          omega
        rw [hfile]
        refine ⟨s1, ?_, ?_, hc, hro, rfl, ?_⟩
        · show (⟨prefixBytes _ (off / m.fileSize) ++ (SingleApp.abs _).bytes⟩ : ByteLog) = _
          rw [s4, htk]
          congr 2
          refine rd_prefixBytes_congr (m := m) ?_ _ ?_
          · rfl
          intro i hi
          have e1 : i ≠ off / m.fileSize := Nat.ne_of_lt hi
          have e2 : i ≠ m.curId := by omega
          simp only [upd, e1, e2, ↓reduceIte]
        · refine ⟨hfs, s2, ?_, ?_, hso, ?_, ?_, ?_, ⟨?_, ?_⟩, ?_⟩
          · simp only [upd, ↓reduceIte, hfile]
          · simp only [hfile, hfl]; exact Nat.le_refl _
          · intro i f' hi hd'
            simp only at hi
            have e1 : i ≠ off / m.fileSize := Nat.ne_of_lt hi
            have e2 : i ≠ m.curId := by omega
            simp only [upd, e1, e2, ↓reduceIte] at hd'
            exact h.below_full i f' (by omega) hd'
          · intro i f' hd'
            simp only [upd] at hd'
            by_cases e1 : i = off / m.fileSize
            · simp only [e1, ↓reduceIte, Option.some.injEq] at hd'
              rw [← hd', hfl]; exact Nat.le_refl _
            · simp only [e1, ↓reduceIte] at hd'
              by_cases e2 : i = m.curId
              · simp only [e2, ↓reduceIte, Option.some.injEq] at hd'
                rw [← hd']; exact hflush
              · simp only [e2, ↓reduceIte] at hd'
                exact h.all_le i f' hd'
          · intro p hpm hpl
            simp only at hpm hpl
            exact h.cache_ok p (rd_foldl_pop_pairs _ _ _ hpm) (by omega)
          · have := h.top_ok.1
            show off / m.fileSize < m.top
            omega
          · intro i hi
            have hi' : m.top ≤ i := hi
            have := h.top_ok.1
            have e1 : i ≠ off / m.fileSize := by omega
            have e2 : i ≠ m.curId := by omega
            simp only [upd, e1, e2, ↓reduceIte]
            exact h.top_ok.2 i hi
          · simp only [k1, k2, k3, k4, k5, k6]
            exact ⟨rfl, rfl, rfl, rfl, rfl, fun hh => ⟨rfl, (g6 hh).2⟩⟩
        · intro lo _ hpl i h1 h2
          simp only at h1 h2
          have e1 : i ≠ off / m.fileSize := Nat.ne_of_lt h2
          have e2 : i ≠ m.curId := by omega
          simp only [upd, e1, e2, ↓reduceIte]
          exact hpl i h1 (by omega)

theorem setOffset_rejects_beyond {m : MultiApp} (h : MInv m) (off : Nat) (hgt : (abs m).size < off) :
    (m.setOffset off).1 = m ∧ (m.setOffset off).2 ≠ none := by
  rw [abs_size h] at hgt
  have hgt' : off > m.offset := hgt
  unfold setOffset
  cases m.closed <;> cases m.readOnly <;> simp [hgt']

/-! ### `DiscardUpto` -/

theorem rd_drop_eq_of_drop_eq {X Y : Bytes} {L off : Nat} (hL : L ≤ off) (h : X.drop L = Y.drop L) :
    X.drop off = Y.drop off := by
  have : off = L + (off - L) := by omega
  rw [this, ← List.drop_drop, ← List.drop_drop, h]

theorem rd_foldl_upd_none (d : Nat → Option Bytes) : ∀ (k j : Nat),
    ((List.range k).foldl (fun d i => upd d i none) d) j = if j < k then none else d j := by
  intro k
  induction k with
  | zero => intro j; simp
  | succ k ih =>
    intro j
    rw [List.range_succ, List.foldl_append]
    simp only [List.foldl_cons, List.foldl_nil, upd]
    by_cases hj : j = k
    · subst hj; simp
    · simp only [hj, ↓reduceIte, ih j]
      by_cases hlt : j < k
      · have : j < k + 1 := by omega
        simp only [hlt, this, ↓reduceIte]
      · have : ¬ (j < k + 1) := by omega
        simp only [hlt, this, ↓reduceIte]

theorem rd_discardUpto_eq {m : MultiApp} (hc : m.closed = false) {off : Nat} (hle : off ≤ m.offset) :
    m.discardUpto off =
      ({ m with cache := (List.range (min (off / m.fileSize) m.curId)).foldl (fun c i => c.pop i) m.cache,
                disk := (List.range (min (off / m.fileSize) m.curId)).foldl (fun d i => upd d i none) m.disk }, none) := by
  have hc' : (m.closed = true) = False := by simp [hc]
  have h1 : ¬ (m.offset < off) := by omega
  simp only [discardUpto, hc', ↓reduceIte, h1]

/-- beyond `k` full chunks, the prefix only depends on the chunks from `k` on -/
theorem rd_prefixBytes_drop_congr {m m' : MultiApp} (h : MInv m) (h' : MInv m') (hfs : m'.fileSize = m.fileSize)
    (hcid : m'.curId = m.curId) (k : Nat) (hd : ∀ i, k ≤ i → m'.disk i = m.disk i) :
    ∀ j, k ≤ j → j ≤ m.curId →
      (prefixBytes m' j).drop (k * m.fileSize) = (prefixBytes m j).drop (k * m.fileSize) := by
  intro j
  induction j with
  | zero => intro _ _; simp [prefixBytes]
  | succ j ih =>
    intro hk hj
    have hl := prefixBytes_length h
    have hl' := prefixBytes_length h'
    rw [hfs, hcid] at hl'
    by_cases hkj : k = j + 1
    · rw [List.drop_of_length_le (by rw [hl' (j + 1) hj, hkj]; exact Nat.le_refl _),
        List.drop_of_length_le (by rw [hl (j + 1) hj, hkj]; exact Nat.le_refl _)]
    · have hkj' : k ≤ j := by omega
      have hmul : k * m.fileSize ≤ j * m.fileSize := Nat.mul_le_mul_right _ hkj'
      simp only [prefixBytes]
      rw [List.drop_append_of_le_length (by rw [hl' j (by omega)]; exact hmul),
        List.drop_append_of_le_length (by rw [hl j (by omega)]; exact hmul), ih hkj' (by omega)]
      congr 1
      simp only [chunkOr, hd j hkj', hfs]

theorem discardUpto_spec {m : MultiApp} (h : MInv m) (hc : m.closed = false) (off : Nat) (hle : off ≤ (abs m).size) :
    (m.discardUpto off).2 = none ∧ MInv (m.discardUpto off).1 ∧
    (abs (m.discardUpto off).1).bytes.drop off = (abs m).bytes.drop off ∧ (abs (m.discardUpto off).1).size = (abs m).size ∧
    (m.discardUpto off).1.cur = m.cur ∧ (m.discardUpto off).1.curId = m.curId ∧
    (∀ lo, off ≤ lo → Present m lo → Present (m.discardUpto off).1 lo) ∧
    (∀ i, off / m.fileSize ≤ i → (m.discardUpto off).1.disk i = m.disk i) := by
  have hsz := abs_size h
  rw [hsz] at hle
  rw [rd_discardUpto_eq hc hle]
  have hfs := h.fs_pos
  have hdisk : ∀ j, ((List.range (min (off / m.fileSize) m.curId)).foldl (fun d i => upd d i none) m.disk) j
      = if j < min (off / m.fileSize) m.curId then none else m.disk j := rd_foldl_upd_none m.disk _
  have hsame : ∀ j, min (off / m.fileSize) m.curId ≤ j →
      ((List.range (min (off / m.fileSize) m.curId)).foldl (fun d i => upd d i none) m.disk) j = m.disk j := by
    intro j hj
    have : ¬ (j < min (off / m.fileSize) m.curId) := by omega
    rw [hdisk, if_neg this]
  have hsome : ∀ j f, ((List.range (min (off / m.fileSize) m.curId)).foldl (fun d i => upd d i none) m.disk) j = some f →
      m.disk j = some f := by
    intro j f hj
    rw [hdisk] at hj
    by_cases hlt : j < min (off / m.fileSize) m.curId
    · simp [hlt] at hj
    · simpa [hlt] using hj
  have hinv : MInv { m with
      cache := (List.range (min (off / m.fileSize) m.curId)).foldl (fun c i => c.pop i) m.cache,
      disk := (List.range (min (off / m.fileSize) m.curId)).foldl (fun d i => upd d i none) m.disk } := by
    refine ⟨hfs, h.cur_inv, ?_, h.cur_len, h.cur_off, ?_, ?_, ?_, ⟨h.top_ok.1, ?_⟩, h.cfg⟩
    · exact (hsame m.curId (by omega)).trans h.cur_disk
    · intro i f hi hd
      exact h.below_full i f hi (hsome i f hd)
    · intro i f hd
      exact h.all_le i f (hsome i f hd)
    · intro p hpm hpl
      exact h.cache_ok p (rd_foldl_pop_pairs _ _ _ hpm) hpl
    · intro i hi
      have hi' : m.top ≤ i := hi
      have := h.top_ok.1
      show (List.foldl (fun d i => upd d i none) m.disk (List.range (min (off / m.fileSize) m.curId))) i = none
      rw [hsame i (by omega)]
      exact h.top_ok.2 i hi'
  have hsz' := abs_size hinv
  -- `off` lies at or beyond the discarded chunks
  have hkoff : min (off / m.fileSize) m.curId * m.fileSize ≤ off := by
    have h1 : min (off / m.fileSize) m.curId * m.fileSize ≤ off / m.fileSize * m.fileSize :=
      Nat.mul_le_mul_right _ (Nat.min_le_left _ _)
    have h2 := Nat.div_mul_le_self off m.fileSize
    omega
  have hpd := rd_prefixBytes_drop_congr h hinv rfl rfl (min (off / m.fileSize) m.curId) hsame m.curId
    (Nat.min_le_right _ _) (Nat.le_refl _)
  have hl := prefixBytes_length h (min (off / m.fileSize) m.curId) (Nat.min_le_right _ _)
  have hkc : min (off / m.fileSize) m.curId * m.fileSize ≤ m.curId * m.fileSize :=
    Nat.mul_le_mul_right _ (Nat.min_le_right _ _)
  refine ⟨rfl, hinv, ?_, ?_, rfl, rfl, ?_, ?_⟩
  · apply rd_drop_eq_of_drop_eq hkoff
    show (prefixBytes _ m.curId ++ (SingleApp.abs m.cur).bytes).drop _ = (prefixBytes m m.curId ++ (SingleApp.abs m.cur).bytes).drop _
    rw [List.drop_append_of_le_length (by rw [prefixBytes_length hinv m.curId (Nat.le_refl _)]; exact hkc),
      List.drop_append_of_le_length (by rw [prefixBytes_length h m.curId (Nat.le_refl _)]; exact hkc), hpd]
  · rw [hsz', hsz]; rfl
  · intro lo hlo hpl i h1 h2
    have h3 : off / m.fileSize ≤ lo / m.fileSize := Nat.div_le_div_right hlo
    have h1' : lo / m.fileSize ≤ i := h1
    show (List.foldl (fun d i => upd d i none) m.disk (List.range (min (off / m.fileSize) m.curId))) i ≠ none
    rw [hsame i (by omega)]
    exact hpl i h1' h2
  · intro i hi
    show (List.foldl (fun d i => upd d i none) m.disk (List.range (min (off / m.fileSize) m.curId))) i = _
    exact hsame i (by omega)

theorem discardUpto_preserves_reads {m : MultiApp} (h : MInv m) (hc : m.closed = false) (off o n : Nat) (hn : 0 < n)
    (hin : o + n ≤ (abs m).size) (hp : Present m o) (hs : CurSafe m o n) (hoff : off ≤ o) :
    ((m.discardUpto off).1.readAt n o).2 = (m.readAt n o).2 := by
  obtain ⟨_, dinv, dabs, dsz, dcur, dcid, dpres, ddisk⟩ := discardUpto_spec h hc off (by omega)
  have hfs : (m.discardUpto off).1.fileSize = m.fileSize := by
    have hsz := abs_size h
    rw [rd_discardUpto_eq hc (by omega)]
  have hclosed : (m.discardUpto off).1.closed = false := by
    have hsz := abs_size h
    rw [rd_discardUpto_eq hc (by omega)]; exact hc
  have hs' : CurSafe (m.discardUpto off).1 o n := by
    unfold CurSafe
    rw [dcur, dcid, hfs]; exact hs
  have r1 := (readAt_spec h hc o n hn hin hp hs).1
  have r2 := (readAt_spec dinv hclosed o n hn (by rw [dsz]; exact hin) (dpres o hoff hp) hs').1
  rw [r1, r2]
  rw [rd_drop_eq_of_drop_eq hoff dabs]

/-! ### close + re-open -/

theorem rd_highest_eq {d : Nat → Option Bytes} {k : Nat} (hk : d k ≠ none) :
    ∀ t, k < t → (∀ i, k < i → i < t → d i = none) → highest d t = some k := by
  intro t
  induction t with
  | zero => intro h; omega
  | succ t ih =>
    intro hkt hnone
    unfold highest
    by_cases hkt' : k = t
    · subst hkt'
      cases hd : d k with
      | none => exact absurd hd hk
      | some f => rfl
    · rw [hnone t (by omega) (by omega)]
      exact ih (by omega) (fun i h1 h2 => hnone i h1 (by omega))

theorem rd_openDir_eq {disk : Nat → Option Bytes} {top : Nat} (o : MOpts) (mdata : Bytes) {id : Nat} {f : Bytes}
    (hh : highest disk top = some id) (hd : disk id = some f) :
    openDir disk top o mdata =
      { disk := upd disk id (some f), top := max top (id + 1),
        cur := SingleApp.openFile f
          { cap := o.cap, retryableSync := o.retryableSync, autoSync := o.autoSync, readOnly := o.readOnly } mdata,
        curId := id, cache := Cache.new o.maxOpenedFiles, fileSize := o.fileSize, cap := o.cap,
        retryableSync := o.retryableSync, autoSync := o.autoSync, readOnly := o.readOnly, closed := false,
        prealloc := o.prealloc, mdata := mdata } := by
  simp only [openDir, hh, hd]
  rfl

theorem rd_close_eq {m : MultiApp} (hc : m.closed = false) :
    (m.close).1 = { m.withCur (m.cur.close).1 with closed := true } := by
  have hc' : (m.closed = true) = False := by simp [hc]
  simp only [close, hc', ↓reduceIte]

theorem reopen_spec {m : MultiApp} (h : MInv m) (hc : m.closed = false) (hns : NoStale m) (o : MOpts)
    (hfs : o.fileSize = m.fileSize) (hcap : o.readOnly = false → 0 < o.cap) :
    abs ((m.close).1.reopen o) = abs m ∧ MInv ((m.close).1.reopen o) := by
  obtain ⟨ci, ca, cn, cb⟩ := SingleApp.close_spec h.cur_inv
  obtain ⟨_, cbuf⟩ := cb h.cfg.1
  have cns := cn hns.1
  -- the closed current chunk's file is its logical content, and still fits the chunk
  have hfile : (m.cur.close).1.file = (SingleApp.abs m.cur).bytes := by
    rw [← ca]
    unfold SingleApp.NoStaleTail at cns
    simp only [SingleApp.abs, cbuf, List.append_nil]
    rw [List.take_of_length_le (by omega)]
  have hflen : (m.cur.close).1.file.length ≤ m.fileSize := by
    rw [hfile]
    have := SingleApp.abs_size h.cur_inv
    simp only [ByteLog.size] at this
    rw [this]; exact h.cur_off
  have hdk : upd m.disk m.curId (some (m.cur.close).1.file) m.curId = some (m.cur.close).1.file := by
    simp only [upd, ↓reduceIte]
  have hhigh : highest (upd m.disk m.curId (some (m.cur.close).1.file)) m.top = some m.curId := by
    apply rd_highest_eq (by rw [hdk]; simp) m.top h.top_ok.1
    intro i h1 _
    have : i ≠ m.curId := by omega
    simp only [upd, this, ↓reduceIte]
    exact hns.2 i h1
  have hre : (m.close).1.reopen o = openDir (upd m.disk m.curId (some (m.cur.close).1.file)) m.top o m.mdata := by
    rw [rd_close_eq hc]; rfl
  rw [hre, rd_openDir_eq o m.mdata hhigh hdk]
  have htop := h.top_ok.1
  constructor
  · show (⟨prefixBytes _ m.curId ++ (SingleApp.abs (SingleApp.openFile _ _ _)).bytes⟩ : ByteLog) = _
    rw [SingleApp.openFile_abs, hfile]
    show _ = (⟨prefixBytes m m.curId ++ (SingleApp.abs m.cur).bytes⟩ : ByteLog)
    congr 2
    refine rd_prefixBytes_congr (m := m) ?_ _ ?_
    · exact hfs
    · intro i hi
      have : i ≠ m.curId := Nat.ne_of_lt hi
      simp only [upd, this, ↓reduceIte]
  · refine ⟨?_, SingleApp.openFile_inv _ _ _, ?_, ?_, ?_, ?_, ?_, ?_, ⟨?_, ?_⟩, ?_⟩
    · show 0 < o.fileSize
      rw [hfs]; exact h.fs_pos
    · simp only [upd, ↓reduceIte]; rfl
    · show (m.cur.close).1.file.length ≤ o.fileSize
      rw [hfs]; exact hflen
    · show (m.cur.close).1.file.length + 0 ≤ o.fileSize
      rw [hfs]; exact hflen
    · intro i f hi hd
      have hi' : i < m.curId := hi
      have : i ≠ m.curId := Nat.ne_of_lt hi'
      simp only [upd, this, ↓reduceIte] at hd
      show f.length = o.fileSize
      rw [hfs]; exact h.below_full i f hi' hd
    · intro i f hd
      show f.length ≤ o.fileSize
      rw [hfs]
      simp only [upd] at hd
      by_cases e : i = m.curId
      · simp only [e, ↓reduceIte, Option.some.injEq] at hd
        rw [← hd]; exact hflen
      · simp only [e, ↓reduceIte] at hd
        exact h.all_le i f hd
    · intro p hp
      simp [Cache.new, Cache.pairs] at hp
    · show m.curId < max m.top (m.curId + 1)
      omega
    · intro i hi
      have hi' : max m.top (m.curId + 1) ≤ i := hi
      have : i ≠ m.curId := by omega
      simp only [upd, this, ↓reduceIte]
      exact h.top_ok.2 i (by omega)
    · exact ⟨rfl, rfl, rfl, rfl, rfl, fun hh => ⟨rfl, hcap hh⟩⟩

/-! ### arbitrary reads; `create` -/

/-- `appendableFor` at ANY offset only changes the cache and keeps the invariant -/
theorem rd_appendableFor_any {m : MultiApp} (h : MInv m) (off : Nat) :
    ∃ c, (m.appendableFor off).1 = { m with cache := c } ∧ MInv { m with cache := c } := by
  unfold appendableFor
  by_cases hcur : off / m.fileSize = m.curId
  · simp only [hcur, ↓reduceIte]
    exact ⟨m.cache, rfl, h⟩
  · simp only [hcur, ↓reduceIte]
    cases hg : m.cache.get (off / m.fileSize) with
    | some cf =>
      obtain ⟨c, fo⟩ := cf
      obtain ⟨hpe, _⟩ := Cache.get_pairs hg
      have hi := rd_minv_with_cache h c (by rw [hpe]; exact h.cache_ok)
      cases hd : m.disk (off / m.fileSize) with
      | none => exact ⟨c, rfl, hi⟩
      | some f => exact ⟨c, rfl, hi⟩
    | none =>
      cases hd : m.disk (off / m.fileSize) with
      | none => exact ⟨m.cache, rfl, h⟩
      | some f =>
        simp only
        have hput : ∀ p ∈ (m.cache.put (off / m.fileSize) f.length).1.pairs, p.1 < m.curId → p.2 = m.fileSize := by
          intro p hp hlt'
          rcases Cache.put_pairs hp with h1 | h1
          · rw [h1] at hlt' ⊢
            exact h.below_full _ f hlt' hd
          · exact h.cache_ok p h1.1 hlt'
        cases hg2 : (m.cache.put (off / m.fileSize) f.length).1.get (off / m.fileSize) with
        | none => exact ⟨_, rfl, rd_minv_with_cache h _ hput⟩
        | some cf =>
          obtain ⟨c, fo⟩ := cf
          obtain ⟨hpe, _⟩ := Cache.get_pairs hg2
          exact ⟨c, rfl, rd_minv_with_cache h c (by rw [hpe]; exact hput)⟩

theorem readLoop_any (n off : Nat) : ∀ (fuel : Nat) (m : MultiApp) (acc : Bytes), MInv m →
    ∃ c, (readLoop fuel m n off acc).1 = { m with cache := c } ∧ MInv { m with cache := c } := by
  intro fuel
  induction fuel with
  | zero => intro m acc h; exact ⟨m.cache, rfl, h⟩
  | succ fuel ih =>
    intro m acc h
    unfold readLoop
    by_cases hge : acc.length ≥ n
    · simp only [hge, ↓reduceIte]; exact ⟨m.cache, rfl, h⟩
    · simp only [hge, ↓reduceIte]
      by_cases hcl : m.closed = true
      · have e : (m.closed = true) = True := by simp [hcl]
        simp only [e, ↓reduceIte]; exact ⟨m.cache, rfl, h⟩
      · have e : (m.closed = true) = False := by simp [hcl]
        simp only [e, ↓reduceIte]
        obtain ⟨c, hm1, hi⟩ := rd_appendableFor_any h (off + acc.length)
        -- every continuation runs on `{ m with cache := c }`
        have hloop : ∀ acc', ∃ c', (readLoop fuel { m with cache := c } n off acc').1 = { m with cache := c' } ∧
            MInv { m with cache := c' } := fun acc' => ih { m with cache := c } acc' hi
        match hap : m.appendableFor (off + acc.length) with
        | (m1, none) =>
          rw [hap] at hm1
          simp only
          exact ⟨c, hm1, hi⟩
        | (m1, some app) =>
          rw [hap] at hm1
          simp only at hm1
          subst hm1
          simp only
          match app.readAt (some (n - acc.length)) (((off + acc.length) % m.fileSize : Nat) : Int) with
          | (d, none) => simp only; exact hloop _
          | (d, some .eof) =>
            simp only
            by_cases hd : d.length > 0
            · simp only [hd, ↓reduceIte]; exact hloop _
            · simp only [hd, ↓reduceIte]; exact ⟨c, rfl, hi⟩
          | (d, some .alreadyClosed) => simp only; exact ⟨c, rfl, hi⟩
          | (d, some .readOnly) => simp only; exact ⟨c, rfl, hi⟩
          | (d, some .illegalArguments) => simp only; exact ⟨c, rfl, hi⟩
          | (d, some .negativeOffset) => simp only; exact ⟨c, rfl, hi⟩
          | (d, some .bufferFull) => simp only; exact ⟨c, rfl, hi⟩
          | (d, some .syncFailed) => simp only; exact ⟨c, rfl, hi⟩
          | (d, some .hang) => simp only; exact ⟨c, rfl, hi⟩

/-- ANY read (any length, any offset, any state) changes nothing but the cache and keeps the invariant -/
theorem readAt_any {m : MultiApp} (h : MInv m) (n off : Nat) :
    ∃ c, (m.readAt n off).1 = { m with cache := c } ∧ MInv { m with cache := c } := by
  unfold readAt
  by_cases hn : n = 0
  · simp only [hn, ↓reduceIte]; exact ⟨m.cache, rfl, h⟩
  · simp only [hn, ↓reduceIte]; exact readLoop_any n off (n + 1) m [] h

theorem readAt_any_abs {m : MultiApp} (h : MInv m) (n off : Nat) : abs (m.readAt n off).1 = abs m := by
  obtain ⟨c, hc, _⟩ := readAt_any h n off
  rw [hc, rd_abs_with_cache]

theorem readAt_any_inv {m : MultiApp} (h : MInv m) (n off : Nat) : MInv (m.readAt n off).1 := by
  obtain ⟨c, hc, hi⟩ := readAt_any h n off
  rw [hc]; exact hi

/-! ### `create` -/

theorem create_inv (o : MOpts) (md : Bytes) (hfs : 0 < o.fileSize) (hcap : o.readOnly = false → 0 < o.cap) :
    MInv (MultiApp.create o md) ∧ (MultiApp.create o md).closed = false ∧ Present (MultiApp.create o md) 0 ∧
    (abs (MultiApp.create o md)).bytes = List.replicate (if o.prealloc then o.fileSize else 0) 0 := by
  have hcr : MultiApp.create o md =
      { disk := upd (fun _ => none) 0 (some (List.replicate (if o.prealloc then o.fileSize else 0) 0)), top := 1,
        cur := SingleApp.openFile (List.replicate (if o.prealloc then o.fileSize else 0) 0)
          { cap := o.cap, retryableSync := o.retryableSync, autoSync := o.autoSync, readOnly := o.readOnly } md,
        curId := 0, cache := Cache.new o.maxOpenedFiles, fileSize := o.fileSize, cap := o.cap,
        retryableSync := o.retryableSync, autoSync := o.autoSync, readOnly := o.readOnly, closed := false,
        prealloc := o.prealloc, mdata := md } := by
    simp only [create, openDir, highest]
    rfl
  rw [hcr]
  have hlen : (List.replicate (if o.prealloc then o.fileSize else 0) (0 : UInt8)).length ≤ o.fileSize := by
    rw [List.length_replicate]; split <;> omega
  refine ⟨⟨hfs, SingleApp.openFile_inv _ _ _, ?_, hlen, ?_, ?_, ?_, ?_, ⟨?_, ?_⟩, ?_⟩, rfl, ?_, ?_⟩
  · simp only [upd, ↓reduceIte]; rfl
  · show (List.replicate (if o.prealloc then o.fileSize else 0) (0 : UInt8)).length + 0 ≤ o.fileSize
    exact hlen
  · intro i f hi
    exact absurd hi (Nat.not_lt_zero i)
  · intro i f hd
    simp only [upd] at hd
    by_cases e : i = 0
    · simp only [e, ↓reduceIte, Option.some.injEq] at hd
      rw [← hd]; exact hlen
    · simp only [e, ↓reduceIte] at hd
      exact absurd hd (by simp)
  · intro p hp
    simp [Cache.new, Cache.pairs] at hp
  · show 0 < 1
    omega
  · intro i hi
    have hi' : 1 ≤ i := hi
    have : i ≠ 0 := by omega
    simp only [upd, this, ↓reduceIte]
  · exact ⟨rfl, rfl, rfl, rfl, rfl, fun hh => ⟨rfl, hcap hh⟩⟩
  · intro i _ hi
    exact absurd hi (Nat.not_lt_zero i)
  · show (prefixBytes _ 0 ++ (SingleApp.abs (SingleApp.openFile _ _ _)).bytes) = _
    rw [SingleApp.openFile_abs]
    simp [prefixBytes]

end MultiApp
end ImmuModel.Log
