/-
C17 — refinement over operation sequences for the multiapp mirror model (helper lemmas).
-/
import ImmuModel.Log.MultiTrace
import ImmuModel.Log.MultiReadLemmas
import ImmuModel.Log.MultiWriteLemmas

namespace ImmuModel.Log
namespace MultiApp

theorem setOffset_guarded (m : MultiApp) (off : Nat) (h : m.closed = true ∨ m.readOnly = true) :
    (m.setOffset off).1 = m := by
  unfold setOffset
  cases hc : m.closed
  · cases hro : m.readOnly
    · rw [hc, hro] at h; simp at h
    · simp
  · simp

theorem discardUpto_flags (m : MultiApp) (off : Nat) :
    (m.discardUpto off).1.closed = m.closed ∧ (m.discardUpto off).1.readOnly = m.readOnly := by
  unfold discardUpto
  split
  · exact ⟨rfl, rfl⟩
  · split <;> exact ⟨rfl, rfl⟩

theorem discardUpto_rejected (m : MultiApp) (off : Nat) (h : m.closed = true ∨ m.offset < off) :
    (m.discardUpto off).1 = m := by
  unfold discardUpto
  cases hc : m.closed
  · have : m.offset < off := by
      rcases h with h | h
      · rw [hc] at h; simp at h
      · exact h
    simp [this]
  · simp

/-- one step keeps the invariant (and the handle open) -/
theorem step_inv {m : MultiApp} (h : MInv m) (hc : m.closed = false) (op : MOp) (hl : legal m op) :
    MInv (step m op) ∧ (step m op).closed = false := by
  cases op with
  | append bs =>
    show MInv (m.append bs true).1 ∧ (m.append bs true).1.closed = false
    by_cases hr : m.closed = true ∨ m.readOnly = true ∨ bs = []
    · rw [(append_rejected m bs true hr).1]; exact ⟨h, hc⟩
    · have hro : m.readOnly = false := by
        cases h' : m.readOnly
        · rfl
        · exact absurd (Or.inr (Or.inl h')) hr
      have hne : bs ≠ [] := fun h' => hr (Or.inr (Or.inr h'))
      obtain ⟨ai, as, _⟩ := append_spec_general h hc hro bs hne true
      exact ⟨ai, by rw [as.1]; exact hc⟩
  | setOffset off =>
    show MInv (m.setOffset off).1 ∧ (m.setOffset off).1.closed = false
    cases hro : m.readOnly
    · by_cases hle : off ≤ (abs m).size
      · obtain ⟨_, _, si, sc, _⟩ := setOffset_spec h hc hro off hle hl
        exact ⟨si, sc⟩
      · rw [(setOffset_rejects_beyond h off (by omega)).1]; exact ⟨h, hc⟩
    · rw [setOffset_guarded m off (Or.inr hro)]; exact ⟨h, hc⟩
  | flush => exact ⟨(flush_spec h).1, by rw [show step m .flush = m.flush.1 from rfl, (flush_sameM m).1]; exact hc⟩
  | sync ok =>
    exact ⟨(sync_spec h ok).1, by rw [show step m (.sync ok) = (m.sync ok).1 from rfl, (sync_sameM m ok).1]; exact hc⟩
  | switchRO =>
    obtain ⟨ri, _, _, _, _, rc, _⟩ := switchRO_spec h true
    exact ⟨ri, by rw [show step m .switchRO = (m.switchRO true).1 from rfl, rc]; exact hc⟩
  | discardUpto off =>
    show MInv (m.discardUpto off).1 ∧ (m.discardUpto off).1.closed = false
    refine ⟨?_, by rw [(discardUpto_flags m off).1]; exact hc⟩
    by_cases hle : off ≤ (abs m).size
    · exact (discardUpto_spec h hc off hle).2.1
    · rw [discardUpto_rejected m off (Or.inr (by rw [← abs_size h]; omega))]; exact h
  | read n off =>
    obtain ⟨c, hm, hi⟩ := readAt_any h n off
    show MInv (m.readAt n off).1 ∧ (m.readAt n off).1.closed = false
    rw [hm]; exact ⟨hi, hc⟩

/-- one step other than `DiscardUpto` refines the byte-log step; nothing gets discarded -/
theorem step_abs {m : MultiApp} (h : MInv m) (hc : m.closed = false) (op : MOp) (hl : legal m op)
    (hnd : isDiscard op = false) :
    abs (step m op) = specStep m (abs m) op ∧ (Present m 0 → Present (step m op) 0) := by
  cases op with
  | append bs =>
    show abs (m.append bs true).1 = specStep m (abs m) (.append bs) ∧ _
    by_cases hr : m.closed = true ∨ m.readOnly = true ∨ bs = []
    · have hcond : ¬ (m.closed = false ∧ m.readOnly = false ∧ bs ≠ []) := by
        rintro ⟨a, b, c⟩
        rcases hr with hr | hr | hr
        · rw [a] at hr; simp at hr
        · rw [b] at hr; simp at hr
        · exact c hr
      simp only [specStep, hcond, ↓reduceIte]
      show abs (m.append bs true).1 = abs m ∧ (Present m 0 → Present (m.append bs true).1 0)
      rw [(append_rejected m bs true hr).1]; exact ⟨rfl, fun hp => hp⟩
    · have hro : m.readOnly = false := by
        cases h' : m.readOnly
        · rfl
        · exact absurd (Or.inr (Or.inl h')) hr
      have hne : bs ≠ [] := fun h' => hr (Or.inr (Or.inr h'))
      have hnone : (m.append bs true).2.2.2 = none := hl hc hro hne
      obtain ⟨_, _, ap, ⟨k, _, hk, hkn⟩, _⟩ := append_spec_general h hc hro bs hne true
      have hk' := hkn hnone
      rw [hk', List.take_length] at hk
      have hcond : (m.closed = false ∧ m.readOnly = false ∧ bs ≠ []) = True := by simp [hc, hro, hne]
      simp only [specStep, hcond, ↓reduceIte]
      refine ⟨?_, ap 0⟩
      cases hx : abs (m.append bs true).1
      rw [hx] at hk
      simp only at hk
      rw [hk]
  | setOffset off =>
    show abs (m.setOffset off).1 = specStep m (abs m) (.setOffset off) ∧ (Present m 0 → Present (m.setOffset off).1 0)
    cases hro : m.readOnly
    · by_cases hle : off ≤ (abs m).size
      · obtain ⟨_, sa, _, _, _, _, sp⟩ := setOffset_spec h hc hro off hle hl
        have hcond : (m.closed = false ∧ m.readOnly = false ∧ off ≤ (abs m).size) = True := by simp [hc, hro, hle]
        simp only [specStep, hcond, ↓reduceIte]
        exact ⟨sa, sp 0 (Nat.zero_le _)⟩
      · have hcond : ¬ (m.closed = false ∧ m.readOnly = false ∧ off ≤ (abs m).size) := fun ⟨_, _, c⟩ => hle c
        simp only [specStep, hcond, ↓reduceIte]
        rw [(setOffset_rejects_beyond h off (by omega)).1]; exact ⟨rfl, fun hp => hp⟩
    · have hcond : ¬ (m.closed = false ∧ m.readOnly = false ∧ off ≤ (abs m).size) := by
        rintro ⟨_, b, _⟩; rw [hro] at b; simp at b
      simp only [specStep, hcond, ↓reduceIte]
      rw [setOffset_guarded m off (Or.inr hro)]; exact ⟨rfl, fun hp => hp⟩
  | flush => exact ⟨(flush_spec h).2.1, (flush_spec h).2.2 0⟩
  | sync ok => exact ⟨(sync_spec h ok).2.1, (sync_spec h ok).2.2 0⟩
  | switchRO =>
    obtain ⟨_, ra, rp, _⟩ := switchRO_spec h true
    exact ⟨ra, rp 0⟩
  | discardUpto off => simp [isDiscard] at hnd
  | read n off =>
    obtain ⟨c, hm, _⟩ := readAt_any h n off
    show abs (m.readAt n off).1 = abs m ∧ (Present m 0 → Present (m.readAt n off).1 0)
    refine ⟨readAt_any_abs h n off, ?_⟩
    rw [hm]; exact fun hp => hp

/-- **every reachable state satisfies the invariant** (all calls, incl. DiscardUpto and failing fsyncs) -/
theorem run_inv : ∀ (ops : List MOp) (m : MultiApp), MInv m → m.closed = false → Legal m ops →
    MInv (run m ops) ∧ (run m ops).closed = false := by
  intro ops
  induction ops with
  | nil => intro m h hc _; exact ⟨h, hc⟩
  | cons op ops ih =>
    intro m h hc hl
    obtain ⟨si, sc⟩ := step_inv h hc op hl.1
    exact ih (step m op) si sc hl.2

/-- **refinement over whole histories** that do not discard a prefix -/
theorem run_refines : ∀ (ops : List MOp) (m : MultiApp), MInv m → m.closed = false → Present m 0 → Legal m ops →
    (∀ op ∈ ops, isDiscard op = false) →
    abs (run m ops) = specRun m (abs m) ops ∧ MInv (run m ops) ∧ Present (run m ops) 0 := by
  intro ops
  induction ops with
  | nil => intro m h _ hp _ _; exact ⟨rfl, h, hp⟩
  | cons op ops ih =>
    intro m h hc hp hl hnd
    obtain ⟨si, sc⟩ := step_inv h hc op hl.1
    obtain ⟨sa, spp⟩ := step_abs h hc op hl.1 (hnd op (by simp))
    have := ih (step m op) si sc (spp hp) hl.2 (fun op' hm => hnd op' (by simp [hm]))
    show abs (run (step m op) ops) = specRun (step m op) (specStep m (abs m) op) ops ∧ _
    rw [← sa]; exact this

end MultiApp
end ImmuModel.Log
