/-
C19 — helper lemmas for the bridge theorems of Props/C19.lean (`search_through_any_index…`): what `compile`
guarantees about the constants of a query (`compile_typed`), the column of a field in the SQL table of a
collection, `Compare` of the SQL layer on converted values = `cmpS` of the document model, the translated
WHERE clause evaluates to `rowMatches`, the translated ORDER BY comparator to `ordCmp`, and the assembly with the
planner theorems of C11 (`Sql/Proofs/SelectPlanMain.lean`).
-/
import ImmuModel.Doc.SqlBridge
import ImmuModel.Doc.Proofs
import ImmuModel.Sql.SelectPlanSpec
import ImmuModel.Sql.Proofs.SelectPlanMain
namespace ImmuModel.Doc.SqlBridgeAux
open ImmuModel ImmuModel.Doc

-- ------------------------------------------------------------------ A. what `compile` guarantees

/-- `structValueToSqlValue` returns NULL or a value of the kind of the column type — for EVERY type (there is
no type for which a value of another kind comes back) -/
theorem conv_typed (v : JVal) (t : CType) (s : SVal) (h : conv v t = .ok s) : typedVal t s = true := by
  cases v <;> cases t <;> simp only [conv] at h <;> first
    | (cases h; rfl)
    | (cases h; done)
    | skip
  -- the id column: a hex string
  rename_i b
  cases hd : docIDFromHex b with
  | error e => rw [hd] at h; cases h
  | ok raw => rw [hd] at h; cases h; rfl

theorem compileCmp_typed (fields : List Field) (c : Cmp) (c' : CCmp) (h : compileCmp fields c = .ok c') :
    typedCmp fields c' = true := by
  unfold compileCmp at h
  cases ht : typeOf fields c.field with
  | none => rw [ht] at h; cases h
  | some t =>
    simp only [ht] at h
    cases hc : conv c.val t with
    | error e => rw [hc] at h; cases h
    | ok v =>
      simp only [hc, Except.ok.injEq] at h
      subst h
      simp only [typedCmp, ht]
      exact conv_typed _ _ _ hc

theorem compileExpr_typed (fields : List Field) : ∀ (cs : List Cmp) (cs' : List CCmp),
    compileExpr fields cs = .ok cs' → cs'.all (typedCmp fields) = true
  | [], cs', h => by
    simp only [compileExpr, Except.ok.injEq] at h
    subst h; rfl
  | c :: cs, cs', h => by
    simp only [compileExpr] at h
    cases h1 : compileCmp fields c with
    | error e => rw [h1] at h; cases h
    | ok c1 =>
      simp only [h1] at h
      cases h2 : compileExpr fields cs with
      | error e => rw [h2] at h; cases h
      | ok cs1 =>
        simp only [h2, Except.ok.injEq] at h
        subst h
        simp only [List.all_cons, Bool.and_eq_true]
        exact ⟨compileCmp_typed fields c c1 h1, compileExpr_typed fields cs cs1 h2⟩

theorem compileExpr_nonempty (fields : List Field) (cs : List Cmp) (cs' : List CCmp)
    (h : compileExpr fields cs = .ok cs') (hne : cs.isEmpty = false) : cs' ≠ [] := by
  cases cs with
  | nil => cases hne
  | cons c cs =>
    simp only [compileExpr] at h
    cases h1 : compileCmp fields c with
    | error e => rw [h1] at h; cases h
    | ok c1 =>
      simp only [h1] at h
      cases h2 : compileExpr fields cs with
      | error e => rw [h2] at h; cases h
      | ok cs1 =>
        simp only [h2, Except.ok.injEq] at h
        subst h
        exact List.cons_ne_nil _ _

theorem compileExprs_typed (fields : List Field) : ∀ (es : List (List Cmp)) (es' : List (List CCmp)),
    compileExprs fields es = .ok es' → typedExprs fields es' = true ∧ ∀ e ∈ es', e ≠ []
  | [], es', h => by
    simp only [compileExprs, Except.ok.injEq] at h
    subst h
    exact ⟨rfl, fun e he => by cases he⟩
  | e :: es, es', h => by
    simp only [compileExprs] at h
    cases hemp : e.isEmpty with
    | true => simp [hemp] at h
    | false =>
      simp only [hemp, Bool.false_eq_true, if_false] at h
      cases h1 : compileExpr fields e with
      | error er => rw [h1] at h; cases h
      | ok e1 =>
        simp only [h1] at h
        cases h2 : compileExprs fields es with
        | error er => rw [h2] at h; cases h
        | ok es1 =>
          simp only [h2, Except.ok.injEq] at h
          subst h
          obtain ⟨i1, i2⟩ := compileExprs_typed fields es es1 h2
          refine ⟨?_, ?_⟩
          · simp only [typedExprs, List.all_cons, Bool.and_eq_true]
            exact ⟨compileExpr_typed fields e e1 h1, i1⟩
          · intro x hx
            rcases List.mem_cons.mp hx with hx | hx
            · subst hx; exact compileExpr_nonempty fields e _ h1 hemp
            · exact i2 x hx

/-- what `compile` guarantees: every comparison is over an existing field with a constant of the field's type
(or NULL), no expression is empty, every ORDER BY field exists -/
theorem compile_typed (fields : List Field) (q : Query) (cq : CQuery) (h : compile fields q = .ok cq) :
    typedExprs fields cq.exprs = true ∧ (∀ e ∈ cq.exprs, e ≠ []) ∧
      (∀ o ∈ cq.order, (typeOf fields o.1).isSome = true) ∧ cq.limit = q.limit := by
  unfold compile at h
  cases h1 : compileExprs fields q.exprs with
  | error e => rw [h1] at h; cases h
  | ok es =>
    simp only [h1] at h
    by_cases ho : (q.order.all (fun o => (typeOf fields o.1).isSome)) = true
    · rw [if_pos ho] at h
      cases h
      obtain ⟨i1, i2⟩ := compileExprs_typed fields q.exprs es h1
      exact ⟨i1, i2, fun o hoo => List.all_eq_true.mp ho o hoo, rfl⟩
    · rw [if_neg ho] at h
      cases h

-- ------------------------------------------------------------------ B. the column of a field

theorem fieldPos_spec (name : Bytes) : ∀ (fields : List Field) (i : Nat), fieldPos name fields = some i →
    ∃ f, fields[i]? = some f ∧ f.name = name ∧ fields.find? (fun f => f.name = name) = some f
  | [], i, h => by cases h
  | g :: fs, i, h => by
    simp only [fieldPos] at h
    by_cases hg : g.name = name
    · rw [if_pos hg] at h
      cases h
      exact ⟨g, rfl, hg, by simp [List.find?, hg]⟩
    · rw [if_neg hg] at h
      cases hp : fieldPos name fs with
      | none => rw [hp] at h; cases h
      | some j =>
        rw [hp] at h
        cases h
        obtain ⟨f, h1, h2, h3⟩ := fieldPos_spec name fs j hp
        refine ⟨f, by simpa using h1, h2, ?_⟩
        simp [List.find?, hg, h3]

theorem fieldPos_none (name : Bytes) : ∀ (fields : List Field), fieldPos name fields = none →
    fields.find? (fun f => f.name = name) = none
  | [], _ => rfl
  | g :: fs, h => by
    simp only [fieldPos] at h
    by_cases hg : g.name = name
    · rw [if_pos hg] at h; cases h
    · rw [if_neg hg] at h
      cases hp : fieldPos name fs with
      | none => simp [List.find?, hg, fieldPos_none name fs hp]
      | some j => rw [hp] at h; cases h

/-- the value the SQL row of a live document has in the column of field `name` -/
def cellOf (hit : Hit) (name : Bytes) : Sql.Val :=
  if name = idField then .blob hit.id else toVal (rowGet hit.row name)

theorem col_spec (fields : List Field) (name : Bytes) (i : Nat) (h : colIdx fields name = some i) :
    ∃ t, typeOf fields name = some t ∧ (docCols fields)[i]? = some (colOf t) ∧
      ∀ hit : Hit, (toSqlRow fields hit)[i]? = some (cellOf hit name) := by
  unfold colIdx at h
  by_cases hn : name = idField
  · rw [if_pos hn] at h
    cases h
    refine ⟨.id, by simp [typeOf, hn], rfl, fun hit => ?_⟩
    simp [toSqlRow, cellOf, hn]
  · rw [if_neg hn] at h
    cases hp : fieldPos name fields with
    | none => rw [hp] at h; cases h
    | some j =>
      rw [hp] at h
      cases h
      obtain ⟨f, h1, h2, h3⟩ := fieldPos_spec name fields j hp
      refine ⟨f.ty, by simp [typeOf, hn, h3], ?_, fun hit => ?_⟩
      · simp [docCols, h1]
      · simp [toSqlRow, cellOf, hn, h1, h2]

theorem typeOf_colIdx (fields : List Field) (name : Bytes) (h : (typeOf fields name).isSome = true) :
    ∃ i, colIdx fields name = some i := by
  unfold colIdx
  by_cases hn : name = idField
  · exact ⟨0, by rw [if_pos hn]⟩
  · rw [if_neg hn]
    cases hp : fieldPos name fields with
    | some j => exact ⟨j + 1, rfl⟩
    | none =>
      have := fieldPos_none name fields hp
      simp [typeOf, hn, this] at h

theorem colIdx_lt (fields : List Field) (name : Bytes) (i : Nat) (h : colIdx fields name = some i) :
    i < (docCols fields).length := by
  obtain ⟨t, _, h2, _⟩ := col_spec fields name i h
  exact (List.getElem?_eq_some_iff.mp h2).1

-- ------------------------------------------------------------------ C. values and comparison

theorem colOf_len (t : CType) : 0 < (colOf t).maxLen ∧ (colOf t).maxLen ≤ (Gen.sqlMaxKeyLen : Int) := by
  cases t <;> decide

/-- a valid key of the column of type `t` is NULL or has the kind of `t` -/
theorem validKey_typed (t : CType) (x : SVal)
    (h : Sql.validKey (colOf t).ty (colOf t).maxLen (toVal x) = true) : typedVal t x = true := by
  cases t <;> cases x <;> first | rfl | (simp [Sql.validKey, colOf, toVal] at h)

/-- a constant of the type of the column that fits it is a valid key of the column -/
theorem typed_validKey (t : CType) (v : SVal) (ht : typedVal t v = true) (hp : plainSVal v = true) :
    Sql.validKey (colOf t).ty (colOf t).maxLen (toVal v) = true ∧ Sql.plainVal (toVal v) = true := by
  obtain ⟨l1, l2⟩ := colOf_len t
  have hd : (decide (0 < (colOf t).maxLen) && decide ((colOf t).maxLen ≤ (Gen.sqlMaxKeyLen : Int))) = true := by
    simp [l1, l2]
  unfold Sql.validKey
  rw [hd]
  cases t <;> cases v <;> first
    | (cases ht; done)
    | (simp only [plainSVal, Bool.and_eq_true, decide_eq_true_eq] at hp
       simp [colOf, toVal, Sql.plainVal, hp])
    | simp [colOf, toVal, Sql.plainVal]

/-- the SQL layer's `Compare` on converted values is the document model's `cmpS` (same kind, or NULL) -/
theorem sqlCompare_toVal (t : CType) (x v : SVal) (hx : typedVal t x = true) (hv : typedVal t v = true) :
    Sql.sqlCompare (toVal x) (toVal v) = .ok (cmpS x v) := by
  cases t <;> cases x <;> cases v <;> first | rfl | (cases hx; done) | (cases hv; done)

theorem holds_toCmpOp (r : Int) (op : Op) : Sql.CmpOp.holds r (toCmpOp op) = satisfies r op := by
  cases op <;> rfl

-- ------------------------------------------------------------------ D. rows

/-- the typed view of a live document fits the schema and carries the document's id -/
def GoodHit (fields : List Field) (hit : Hit) : Prop :=
  (∀ name t, typeOf fields name = some t → typedVal t (rowGet hit.row name) = true) ∧
    rowGet hit.row idField = .id hit.id

theorem cell_eq (fields : List Field) (hit : Hit) (hg : GoodHit fields hit) (name : Bytes) :
    cellOf hit name = toVal (rowGet hit.row name) := by
  unfold cellOf
  split
  · rename_i hn
    rw [hn, hg.2]; rfl
  · rfl

theorem goodHit_of_rowOK (fields : List Field) (hit : Hit)
    (hok : Sql.rowOK (docCols fields) (toSqlRow fields hit) = true)
    (hid : rowGet hit.row idField = .id hit.id) : GoodHit fields hit := by
  refine ⟨?_, hid⟩
  intro name t ht
  by_cases hn : name = idField
  · have : t = .id := by simp [typeOf, hn] at ht; exact ht.symm
    rw [this, hn, hid]; rfl
  · obtain ⟨i, hi⟩ := typeOf_colIdx fields name (by rw [ht]; rfl)
    obtain ⟨t', h1, h2, h3⟩ := col_spec fields name i hi
    rw [ht] at h1
    cases h1
    have hc := h3 hit
    simp only [cellOf, if_neg hn] at hc
    exact validKey_typed t _ (Sql.QueryOrderAux.rowOK_get hok h2 hc).1

theorem goodHits_of_wf (c : Coll) (hwf : (docTable c).wf = true) (hid : idsConsistent c = true) :
    ∀ h ∈ liveHits c, GoodHit c.fields h := by
  intro h hh
  apply goodHit_of_rowOK
  · apply Sql.QueryMainAux.wf_rowOK hwf
    exact List.mem_map_of_mem (f := toSqlRow c.fields) hh
  · have := List.all_eq_true.mp hid h hh
    simpa using this

-- ------------------------------------------------------------------ E. the WHERE clause

theorem eval_cmp (fields : List Field) (hit : Hit) (hg : GoodHit fields hit) (c : CCmp) (p : Sql.Pred)
    (ht : typedCmp fields c = true) (hp : toCmpPred fields c = some p) :
    p.eval (toSqlRow fields hit) = .ok (some (evalCmp hit.row c)) := by
  unfold toCmpPred at hp
  cases hi : colIdx fields c.field with
  | none => rw [hi] at hp; cases hp
  | some i =>
    simp only [hi, Option.some.injEq] at hp
    subst hp
    obtain ⟨t, h1, _, h3⟩ := col_spec fields c.field i hi
    simp only [typedCmp, h1] at ht
    have hcell := h3 hit
    rw [cell_eq fields hit hg] at hcell
    have hcmp := sqlCompare_toVal t _ _ (hg.1 _ _ h1) ht
    simp only [Sql.Pred.eval, Sql.getCol, hcell, Bool.false_eq_true, if_false, Sql.cmpVals, hcmp,
      holds_toCmpOp, evalCmp]

theorem eval_innerFrom (fields : List Field) (hit : Hit) (hg : GoodHit fields hit) :
    ∀ (cs : List CCmp) (acc p : Sql.Pred) (b : Bool),
      acc.eval (toSqlRow fields hit) = .ok (some b) → cs.all (typedCmp fields) = true →
      toInnerFrom fields acc cs = some p →
      p.eval (toSqlRow fields hit) = .ok (some (b && cs.all (evalCmp hit.row)))
  | [], acc, p, b, ha, _, hp => by
    simp only [toInnerFrom, Option.some.injEq] at hp
    subst hp
    simp [ha]
  | c :: cs, acc, p, b, ha, ht, hp => by
    simp only [List.all_cons, Bool.and_eq_true] at ht
    simp only [toInnerFrom] at hp
    cases hc : toCmpPred fields c with
    | none => rw [hc] at hp; cases hp
    | some pc =>
      simp only [hc] at hp
      have e1 := eval_cmp fields hit hg c pc ht.1 hc
      have e2 : (Sql.Pred.and acc pc).eval (toSqlRow fields hit) = .ok (some (b && evalCmp hit.row c)) := by
        simp only [Sql.Pred.eval, ha, e1]
        cases b <;> rfl
      have := eval_innerFrom fields hit hg cs _ p _ e2 ht.2 hp
      rw [this, List.all_cons, Bool.and_assoc]

theorem eval_inner (fields : List Field) (hit : Hit) (hg : GoodHit fields hit) (e : List CCmp) (p : Sql.Pred)
    (ht : e.all (typedCmp fields) = true) (hp : toInner fields e = some p) :
    p.eval (toSqlRow fields hit) = .ok (some (e.all (evalCmp hit.row))) := by
  cases e with
  | nil => cases hp
  | cons c cs =>
    simp only [List.all_cons, Bool.and_eq_true] at ht
    simp only [toInner] at hp
    cases hc : toCmpPred fields c with
    | none => rw [hc] at hp; cases hp
    | some pc =>
      simp only [hc] at hp
      have e1 := eval_cmp fields hit hg c pc ht.1 hc
      rw [eval_innerFrom fields hit hg cs pc p _ e1 ht.2 hp, List.all_cons]

theorem eval_outerFrom (fields : List Field) (hit : Hit) (hg : GoodHit fields hit) :
    ∀ (es : List (List CCmp)) (acc p : Sql.Pred) (b : Bool),
      acc.eval (toSqlRow fields hit) = .ok (some b) → typedExprs fields es = true →
      toOuterFrom fields acc es = some p →
      p.eval (toSqlRow fields hit) = .ok (some (b || es.any (fun e => e.all (evalCmp hit.row))))
  | [], acc, p, b, ha, _, hp => by
    simp only [toOuterFrom, Option.some.injEq] at hp
    subst hp
    simp [ha]
  | e :: es, acc, p, b, ha, ht, hp => by
    simp only [typedExprs, List.all_cons, Bool.and_eq_true] at ht
    simp only [toOuterFrom] at hp
    cases hc : toInner fields e with
    | none => rw [hc] at hp; cases hp
    | some pe =>
      simp only [hc] at hp
      have e1 := eval_inner fields hit hg e pe ht.1 hc
      have e2 : (Sql.Pred.or acc pe).eval (toSqlRow fields hit) =
          .ok (some (b || e.all (evalCmp hit.row))) := by
        simp only [Sql.Pred.eval, ha, e1]
        cases b <;> rfl
      have := eval_outerFrom fields hit hg es _ p _ e2 ht.2 hp
      rw [this, List.any_cons, Bool.or_assoc]

/-- KEY LEMMA: the translated WHERE clause evaluates, on the SQL row of a live document, to what the
index-free document specification says (never to NULL, never to an error) -/
theorem eval_toPred (fields : List Field) (hit : Hit) (hg : GoodHit fields hit) (es : List (List CCmp))
    (p : Sql.Pred) (ht : typedExprs fields es = true) (hp : toPred fields es = some p) :
    p.eval (toSqlRow fields hit) = .ok (some (rowMatches es hit.row)) := by
  cases es with
  | nil =>
    simp only [toPred, Option.some.injEq] at hp
    subst hp
    rfl
  | cons e es =>
    have ht' := ht
    simp only [typedExprs, List.all_cons, Bool.and_eq_true] at ht'
    simp only [toPred] at hp
    cases hc : toInner fields e with
    | none => rw [hc] at hp; cases hp
    | some pe =>
      simp only [hc] at hp
      have e1 := eval_inner fields hit hg e pe ht'.1 hc
      rw [eval_outerFrom fields hit hg es pe p _ e1 ht'.2 hp]
      simp [rowMatches]

theorem rowsWhere_map (fields : List Field) (es : List (List CCmp)) (p : Sql.Pred)
    (ht : typedExprs fields es = true) (hp : toPred fields es = some p) :
    ∀ (L : List Hit), (∀ h ∈ L, GoodHit fields h) →
      Sql.rowsWhere p (L.map (toSqlRow fields)) =
        (L.filter (fun h => rowMatches es h.row)).map (toSqlRow fields)
  | [], _ => rfl
  | h :: L, hg => by
    have ih := rowsWhere_map fields es p ht hp L (fun x hx => hg x (List.mem_cons_of_mem _ hx))
    have he := eval_toPred fields h (hg h List.mem_cons_self) es p ht hp
    have hk := Sql.QueryScanAux.keeps_of_eval he
    simp only [List.map_cons, List.filter_cons]
    cases hm : rowMatches es h.row with
    | true =>
      rw [hm] at hk
      rw [Sql.SelectPlanMainAux.rowsWhere_cons_true hk, ih]
      simp
    | false =>
      rw [hm] at hk
      rw [Sql.SelectPlanMainAux.rowsWhere_cons_false (by rw [hk]; intro x; cases x), ih]
      simp

/-- the rows the SQL specification keeps are the SQL rows of the documents the document specification keeps -/
theorem rowsWhere_docTable (c : Coll) (es : List (List CCmp)) (p : Sql.Pred)
    (hwf : (docTable c).wf = true) (hid : idsConsistent c = true)
    (ht : typedExprs c.fields es = true) (hp : toPred c.fields es = some p) :
    Sql.rowsWhere p (docTable c).rows =
      ((liveHits c).filter (fun h => rowMatches es h.row)).map (toSqlRow c.fields) :=
  rowsWhere_map c.fields es p ht hp (liveHits c) (goodHits_of_wf c hwf hid)

-- ------------------------------------------------------------------ F. the WHERE clause is well typed

theorem wt_cmp (fields : List Field) (c : CCmp) (p : Sql.Pred)
    (ht : typedCmp fields c = true) (hpl : plainSVal c.val = true) (hp : toCmpPred fields c = some p) :
    p.wt (docCols fields) = true ∧ p.plain = true := by
  unfold toCmpPred at hp
  cases hi : colIdx fields c.field with
  | none => rw [hi] at hp; cases hp
  | some i =>
    simp only [hi, Option.some.injEq] at hp
    subst hp
    obtain ⟨t, h1, h2, _⟩ := col_spec fields c.field i hi
    simp only [typedCmp, h1] at ht
    obtain ⟨v1, v2⟩ := typed_validKey t c.val ht hpl
    simp only [Sql.Pred.wt, h2, Sql.Pred.plain]
    exact ⟨v1, v2⟩

theorem wt_innerFrom (fields : List Field) : ∀ (cs : List CCmp) (acc p : Sql.Pred),
    acc.wt (docCols fields) = true ∧ acc.plain = true →
    cs.all (typedCmp fields) = true → cs.all (fun c => plainSVal c.val) = true →
    toInnerFrom fields acc cs = some p → p.wt (docCols fields) = true ∧ p.plain = true
  | [], acc, p, ha, _, _, hp => by
    simp only [toInnerFrom, Option.some.injEq] at hp
    subst hp; exact ha
  | c :: cs, acc, p, ha, ht, hpl, hp => by
    simp only [List.all_cons, Bool.and_eq_true] at ht hpl
    simp only [toInnerFrom] at hp
    cases hc : toCmpPred fields c with
    | none => rw [hc] at hp; cases hp
    | some pc =>
      simp only [hc] at hp
      obtain ⟨w1, w2⟩ := wt_cmp fields c pc ht.1 hpl.1 hc
      apply wt_innerFrom fields cs _ p _ ht.2 hpl.2 hp
      simp only [Sql.Pred.wt, Sql.Pred.plain, Bool.and_eq_true]
      exact ⟨⟨ha.1, w1⟩, ⟨ha.2, w2⟩⟩

theorem wt_inner (fields : List Field) (e : List CCmp) (p : Sql.Pred)
    (ht : e.all (typedCmp fields) = true) (hpl : e.all (fun c => plainSVal c.val) = true)
    (hp : toInner fields e = some p) : p.wt (docCols fields) = true ∧ p.plain = true := by
  cases e with
  | nil => cases hp
  | cons c cs =>
    simp only [List.all_cons, Bool.and_eq_true] at ht hpl
    simp only [toInner] at hp
    cases hc : toCmpPred fields c with
    | none => rw [hc] at hp; cases hp
    | some pc =>
      simp only [hc] at hp
      exact wt_innerFrom fields cs pc p (wt_cmp fields c pc ht.1 hpl.1 hc) ht.2 hpl.2 hp

theorem wt_outerFrom (fields : List Field) : ∀ (es : List (List CCmp)) (acc p : Sql.Pred),
    acc.wt (docCols fields) = true ∧ acc.plain = true →
    typedExprs fields es = true → plainExprs es = true →
    toOuterFrom fields acc es = some p → p.wt (docCols fields) = true ∧ p.plain = true
  | [], acc, p, ha, _, _, hp => by
    simp only [toOuterFrom, Option.some.injEq] at hp
    subst hp; exact ha
  | e :: es, acc, p, ha, ht, hpl, hp => by
    simp only [typedExprs, plainExprs, List.all_cons, Bool.and_eq_true] at ht hpl
    simp only [toOuterFrom] at hp
    cases hc : toInner fields e with
    | none => rw [hc] at hp; cases hp
    | some pe =>
      simp only [hc] at hp
      obtain ⟨w1, w2⟩ := wt_inner fields e pe ht.1 hpl.1 hc
      apply wt_outerFrom fields es _ p _ ht.2 hpl.2 hp
      simp only [Sql.Pred.wt, Sql.Pred.plain, Bool.and_eq_true]
      exact ⟨⟨ha.1, w1⟩, ⟨ha.2, w2⟩⟩

theorem wt_toPred (fields : List Field) (es : List (List CCmp)) (p : Sql.Pred)
    (ht : typedExprs fields es = true) (hpl : plainExprs es = true) (hp : toPred fields es = some p) :
    p.wt (docCols fields) = true ∧ p.plain = true := by
  cases es with
  | nil =>
    simp only [toPred, Option.some.injEq] at hp
    subst hp
    exact ⟨rfl, rfl⟩
  | cons e es =>
    simp only [typedExprs, plainExprs, List.all_cons, Bool.and_eq_true] at ht hpl
    simp only [toPred] at hp
    cases hc : toInner fields e with
    | none => rw [hc] at hp; cases hp
    | some pe =>
      simp only [hc] at hp
      exact wt_outerFrom fields es pe p (wt_inner fields e pe ht.1 hpl.1 hc) ht.2 hpl.2 hp

-- ------------------------------------------------------------------ G. ids of rows

/-- total version of `rowId` (the empty id for a row that does not start with a BLOB) -/
def rowIdD (r : Sql.Row) : Bytes := (rowId r).getD []

theorem rowIds_eq : ∀ (rows : List Sql.Row) (ids : List Bytes), rowIds rows = some ids → ids = rows.map rowIdD
  | [], ids, h => by cases h; rfl
  | r :: rs, ids, h => by
    simp only [rowIds] at h
    cases h1 : rowId r with
    | none => simp [h1] at h
    | some i =>
      cases h2 : rowIds rs with
      | none => simp [h1, h2] at h
      | some is =>
        simp only [h1, h2, Option.some.injEq] at h
        subst h
        rw [rowIds_eq rs is h2]
        simp [rowIdD, h1]

theorem rowIdD_toSqlRow (fields : List Field) (h : Hit) : rowIdD (toSqlRow fields h) = h.id := rfl

theorem rowIds_map (fields : List Field) : ∀ (L : List Hit),
    rowIds (L.map (toSqlRow fields)) = some (L.map (·.id))
  | [] => rfl
  | h :: L => by
    simp only [List.map_cons, rowIds, rowIds_map fields L]
    rfl

theorem rowIds_take (n : Nat) : ∀ (rows : List Sql.Row) (ids : List Bytes), rowIds rows = some ids →
    rowIds (rows.take n) = some (ids.take n) := by
  induction n with
  | zero => intro rows ids _; rfl
  | succ n ih =>
    intro rows ids h
    cases rows with
    | nil => cases h; rfl
    | cons r rs =>
      simp only [rowIds] at h
      cases h1 : rowId r with
      | none => simp [h1] at h
      | some i =>
        cases h2 : rowIds rs with
        | none => simp [h1, h2] at h
        | some is =>
          simp only [h1, h2, Option.some.injEq] at h
          subst h
          simp only [List.take_succ_cons, rowIds, h1, ih rs is h2]

theorem rowIds_drop (n : Nat) : ∀ (rows : List Sql.Row) (ids : List Bytes), rowIds rows = some ids →
    rowIds (rows.drop n) = some (ids.drop n) := by
  induction n with
  | zero => intro rows ids h; simpa using h
  | succ n ih =>
    intro rows ids h
    cases rows with
    | nil => cases h; rfl
    | cons r rs =>
      simp only [rowIds] at h
      cases h1 : rowId r with
      | none => simp [h1] at h
      | some i =>
        cases h2 : rowIds rs with
        | none => simp [h1, h2] at h
        | some is =>
          simp only [h1, h2, Option.some.injEq] at h
          subst h
          simp only [List.drop_succ_cons]
          exact ih rs is h2

/-- unfolding a successful `ixSearch` -/
theorem ixSearch_ok {c : Coll} {secs : List (List Bytes)} {q : CQuery} {offset : Nat} {pl : Sql.Plan}
    {ids : List Bytes} (h : ixSearch c secs q offset = .ok (pl, ids)) :
    ∃ pq ss rows, docPQuery c.fields q offset = some pq ∧ toSecs c.fields secs = some ss ∧
      Sql.runPlan (docTable c) ss pq = .ok (pl, rows) ∧ rowIds rows = some ids := by
  unfold ixSearch at h
  cases h1 : docPQuery c.fields q offset with
  | none => simp [h1] at h
  | some pq =>
    cases h2 : toSecs c.fields secs with
    | none => simp [h1, h2] at h
    | some ss =>
      simp only [h1, h2] at h
      cases h3 : Sql.runPlan (docTable c) ss pq with
      | error e => simp [h3] at h
      | ok r =>
        obtain ⟨pl', rows⟩ := r
        simp only [h3] at h
        cases h4 : rowIds rows with
        | none => simp [h4] at h
        | some ids' =>
          simp only [h4, Except.ok.injEq, Prod.mk.injEq] at h
          obtain ⟨e1, e2⟩ := h
          subst e1; subst e2
          exact ⟨pq, ss, rows, rfl, rfl, h3, h4⟩

theorem docPQuery_ok {fields : List Field} {q : CQuery} {offset : Nat} {pq : Sql.PQuery}
    (h : docPQuery fields q offset = some pq) :
    ∃ p o, toPred fields q.exprs = some p ∧ toOrder fields q.order = some o ∧
      pq = { hint := none, order := o, limit := q.limit, offset := offset, where_ := p } := by
  unfold docPQuery at h
  cases h1 : toPred fields q.exprs with
  | none => simp [h1] at h
  | some p =>
    cases h2 : toOrder fields q.order with
    | none => simp [h1, h2] at h
    | some o =>
      simp only [h1, h2, Option.some.injEq] at h
      exact ⟨p, o, rfl, rfl, h.symm⟩

/-- without paging the index-free search is a permutation of the matching live documents -/
theorem search_perm (c : Coll) (q : CQuery) (hl : q.limit = 0) :
    (search c q 0).Perm (((liveHits c).filter (fun h => rowMatches q.exprs h.row)).map (·.id)) := by
  unfold search searchHits
  rw [hl, ProofsAux.window_nolimit]
  apply List.Perm.map
  unfold matchesSorted
  split
  · exact List.Perm.refl _
  · exact ProofsAux.perm_isort _ _

-- ------------------------------------------------------------------ H. ORDER BY

theorem toOrder_cols (fields : List Field) : ∀ (order : List (Bytes × Bool)) (o : List Sql.OrdCol),
    toOrder fields order = some o → ∀ x ∈ o, x.col < (docCols fields).length
  | [], o, h => by cases h; intro x hx; cases hx
  | (f, d) :: rest, o, h => by
    simp only [toOrder] at h
    cases h1 : colIdx fields f with
    | none => simp [h1] at h
    | some i =>
      cases h2 : toOrder fields rest with
      | none => simp [h1, h2] at h
      | some os =>
        simp only [h1, h2, Option.some.injEq] at h
        subst h
        intro x hx
        rcases List.mem_cons.mp hx with hx | hx
        · subst hx; exact colIdx_lt fields f i h1
        · exact toOrder_cols fields rest os h2 x hx

/-- the translated ORDER BY comparator on the SQL rows of two live documents is the document model's `ordCmp` -/
theorem ordCmp_bridge (fields : List Field) (a b : Hit) (ha : GoodHit fields a) (hb : GoodHit fields b) :
    ∀ (order : List (Bytes × Bool)) (o : List Sql.OrdCol), toOrder fields order = some o →
      Sql.ordCmp o (toSqlRow fields a) (toSqlRow fields b) = .ok (ordCmp order a.row b.row)
  | [], o, h => by cases h; rfl
  | (f, d) :: rest, o, h => by
    simp only [toOrder] at h
    cases h1 : colIdx fields f with
    | none => simp [h1] at h
    | some i =>
      cases h2 : toOrder fields rest with
      | none => simp [h1, h2] at h
      | some os =>
        simp only [h1, h2, Option.some.injEq] at h
        subst h
        obtain ⟨t, t1, _, t3⟩ := col_spec fields f i h1
        have ca := t3 a
        have cb := t3 b
        rw [cell_eq fields a ha] at ca
        rw [cell_eq fields b hb] at cb
        have hcmp := sqlCompare_toVal t _ _ (ha.1 _ _ t1) (hb.1 _ _ t1)
        have ih := ordCmp_bridge fields a b ha hb rest os h2
        simp only [Sql.ordCmp, Sql.getCol, ca, cb, Sql.cmpVals, hcmp, ih, ordCmp]
        cases d
        · simp only [Bool.false_eq_true, if_false]
          split <;> rfl
        · simp only [if_true]
          by_cases hz : cmpS (rowGet a.row f) (rowGet b.row f) = 0
          · rw [if_pos hz, if_pos (by omega)]
          · rw [if_neg hz, if_neg (by omega)]

/-- every row a planned query returns is a row of the table -/
theorem runPlan_mem {t : Sql.Table} {secs : List (List Nat)} {q : Sql.PQuery} {pl : Sql.Plan}
    {rows : List Sql.Row} (h : Sql.runPlan t secs q = .ok (pl, rows)) : ∀ r ∈ rows, r ∈ t.rows := by
  obtain ⟨mF, lo, hi, view, _, _, _, h3, hsort, hnosort⟩ := Sql.SelectPlanMainAux.runPlan_ok h
  obtain ⟨_, _, hmem⟩ := Sql.QueryScanAux.indexView_spec h3
  have hstream : ∀ r ∈ (Sql.SelectPlanMainAux.orderedOf pl lo hi view).map (·.2), r ∈ t.rows := by
    intro r hr
    obtain ⟨x, hx, rfl⟩ := List.mem_map.mp hr
    exact (hmem x (Sql.SelectPlanMainAux.orderedOf_mem hx)).1
  intro r hr
  cases hs : pl.sort with
  | true =>
    obtain ⟨kept, s, k1, k2, k3⟩ := hsort hs
    subst k3
    have h1 : r ∈ s := List.mem_of_mem_drop ((Sql.SelectPlanMainAux.limitRows_sublist _ _).subset hr)
    have h2 : r ∈ kept := (Sql.SelectPlanOrderAux.sortRows_perm _ kept s k2).subset h1
    exact hstream r ((Sql.QueryScanAux.takeWhere_sublist _ _ _ _ _ _ k1).subset h2)
  | false =>
    exact hstream r ((Sql.QueryScanAux.takeWhere_sublist _ _ _ _ _ _ (hnosort hs)).subset hr)

/-- a list of rows of the document table is the image of a list of live documents -/
theorem hits_of_rows (fields : List Field) (L : List Hit) : ∀ (rows : List Sql.Row),
    (∀ r ∈ rows, r ∈ L.map (toSqlRow fields)) →
    ∃ hits : List Hit, (∀ h ∈ hits, h ∈ L) ∧ rows = hits.map (toSqlRow fields)
  | [], _ => ⟨[], fun h hh => (by cases hh), rfl⟩
  | r :: rs, hm => by
    obtain ⟨hits, i1, i2⟩ := hits_of_rows fields L rs (fun x hx => hm x (List.mem_cons_of_mem _ hx))
    obtain ⟨h, hh, he⟩ := List.mem_map.mp (hm r List.mem_cons_self)
    refine ⟨h :: hits, ?_, by simp [he, i2]⟩
    intro x hx
    rcases List.mem_cons.mp hx with hx | hx
    · subst hx; exact hh
    · exact i1 x hx

/-- every row a planned query returns is kept by the WHERE clause -/
theorem runPlan_keeps {t : Sql.Table} {secs : List (List Nat)} {q : Sql.PQuery} {pl : Sql.Plan}
    {rows : List Sql.Row} (h : Sql.runPlan t secs q = .ok (pl, rows)) :
    ∀ r ∈ rows, Sql.keeps q.where_ r = .ok true := by
  obtain ⟨mF, lo, hi, view, _, _, _, _, hsort, hnosort⟩ := Sql.SelectPlanMainAux.runPlan_ok h
  intro r hr
  cases hs : pl.sort with
  | true =>
    obtain ⟨kept, s, k1, k2, k3⟩ := hsort hs
    subst k3
    have h1 : r ∈ s := List.mem_of_mem_drop ((Sql.SelectPlanMainAux.limitRows_sublist _ _).subset hr)
    have h2 : r ∈ kept := (Sql.SelectPlanOrderAux.sortRows_perm _ kept s k2).subset h1
    exact Sql.SelectPlanMainAux.takeWhere_keeps _ _ _ _ _ _ k1 r h2
  | false =>
    exact Sql.SelectPlanMainAux.takeWhere_keeps _ _ _ _ _ _ (hnosort hs) r hr

-- ------------------------------------------------------------------ I. assembly

/-- the ids returned through whatever plan was chosen are, as a multiset, those of the index-free search -/
theorem search_any_index (c : Coll) (secs : List (List Bytes)) (q : CQuery) (pl : Sql.Plan) (ids : List Bytes)
    (hwf : (docTable c).wf = true) (hid : idsConsistent c = true)
    (ht : typedExprs c.fields q.exprs = true) (hpl : plainExprs q.exprs = true) (hl : q.limit = 0)
    (h : ixSearch c secs q 0 = .ok (pl, ids)) : ids.Perm (search c q 0) := by
  obtain ⟨pq, ss, rows, h1, _, h3, h4⟩ := ixSearch_ok h
  obtain ⟨p, o, hp, _, rfl⟩ := docPQuery_ok h1
  obtain ⟨w1, w2⟩ := wt_toPred c.fields q.exprs p ht hpl hp
  have perm := Sql.SelectPlanMainAux.plan_rows_perm (docTable c) ss
    { hint := none, order := o, limit := q.limit, offset := 0, where_ := p } pl rows hwf w1 w2 hl rfl h3
  simp only [rowsWhere_docTable c q.exprs p hwf hid ht hp] at perm
  have hm := perm.map rowIdD
  rw [← rowIds_eq rows ids h4, List.map_map] at hm
  exact hm.trans (search_perm c q hl).symm

/-- the rows behind the returned ids: live documents satisfying the filter, in ORDER BY order -/
theorem search_any_index_sorted (c : Coll) (secs : List (List Bytes)) (q : CQuery) (offset : Nat)
    (pl : Sql.Plan) (ids : List Bytes)
    (hwf : (docTable c).wf = true) (hid : idsConsistent c = true)
    (ht : typedExprs c.fields q.exprs = true) (hpl : plainExprs q.exprs = true)
    (h : ixSearch c secs q offset = .ok (pl, ids)) :
    ∃ (pq : Sql.PQuery) (ss : List (List Nat)) (rows : List Sql.Row) (hits : List Hit),
      docPQuery c.fields q offset = some pq ∧ toSecs c.fields secs = some ss ∧
      Sql.runPlan (docTable c) ss pq = .ok (pl, rows) ∧ rows.Pairwise (Sql.ordLe pq.order) ∧
      rows = hits.map (toSqlRow c.fields) ∧ ids = hits.map (·.id) ∧
      (∀ x ∈ hits, x ∈ liveHits c ∧ rowMatches q.exprs x.row = true) ∧
      hits.Pairwise (fun a b => ordCmp q.order a.row b.row ≤ 0) := by
  obtain ⟨pq, ss, rows, h1, h2, h3, h4⟩ := ixSearch_ok h
  obtain ⟨p, o, hp, ho, hpq⟩ := docPQuery_ok h1
  obtain ⟨w1, w2⟩ := wt_toPred c.fields q.exprs p ht hpl hp
  have hgood := goodHits_of_wf c hwf hid
  have hord : ∀ x ∈ pq.order, x.col < (docTable c).cols.length := by
    rw [hpq]; exact toOrder_cols c.fields q.order o ho
  have hsorted : rows.Pairwise (Sql.ordLe pq.order) :=
    Sql.SelectPlanMainAux.order_by_sorted_plan (docTable c) ss pq pl rows hwf hord
      (by rw [hpq]; exact w1) (by rw [hpq]; exact w2) h3
  obtain ⟨hits, i1, i2⟩ := hits_of_rows c.fields (liveHits c) rows (runPlan_mem h3)
  have hids : ids = hits.map (·.id) := by
    rw [rowIds_eq rows ids h4, i2, List.map_map]; rfl
  refine ⟨pq, ss, rows, hits, h1, h2, h3, hsorted, i2, hids, ?_, ?_⟩
  · intro x hx
    refine ⟨i1 x hx, ?_⟩
    have hk := runPlan_keeps h3 (toSqlRow c.fields x) (by rw [i2]; exact List.mem_map_of_mem hx)
    rw [hpq] at hk
    have he := eval_toPred c.fields x (hgood x (i1 x hx)) q.exprs p ht hp
    rw [Sql.QueryScanAux.keeps_of_eval he] at hk
    exact Except.ok.inj hk
  · rw [i2, List.pairwise_map] at hsorted
    refine hsorted.imp_of_mem ?_
    intro a b ha hb hab
    obtain ⟨k, hk, hle⟩ := hab
    rw [hpq] at hk
    rw [ordCmp_bridge c.fields a b (hgood a (i1 a ha)) (hgood b (i1 b hb)) q.order o ho] at hk
    cases hk
    exact hle

/-- LIMIT / OFFSET of a document query is a slice of the unpaged answer of the same plan -/
theorem search_any_index_paged (c : Coll) (secs : List (List Bytes)) (q : CQuery) (offset : Nat)
    (pl : Sql.Plan) (all : List Bytes)
    (h0 : ixSearch c secs { q with limit := 0 } 0 = .ok (pl, all)) :
    ixSearch c secs q offset = .ok (pl, window offset q.limit all) := by
  obtain ⟨pq0, ss, rows, h1, h2, h3, h4⟩ := ixSearch_ok h0
  obtain ⟨p, o, hp, ho, hpq⟩ := docPQuery_ok h1
  simp only at hp ho
  have hq : docPQuery c.fields q offset =
      some { hint := none, order := o, limit := q.limit, offset := offset, where_ := p } := by
    simp only [docPQuery, hp, ho]
  have hrun := Sql.SelectPlanMainAux.plan_limit_offset (docTable c) ss
    { hint := none, order := o, limit := q.limit, offset := offset, where_ := p } pl rows
    (by simp only [Sql.PQuery.unlimited]; rw [← hpq]; exact h3)
  have hids : rowIds (Sql.limitRows q.limit (rows.drop offset)) = some (window offset q.limit all) := by
    unfold Sql.limitRows window
    have hd := rowIds_drop offset rows all h4
    by_cases hl : q.limit = 0
    · simp only [hl, if_true]; exact hd
    · simp only [hl, if_false]; exact rowIds_take _ _ _ hd
  unfold ixSearch
  simp only [hq, h2, hrun, hids]

-- ------------------------------------------------------------------ J. compiled queries always translate

theorem toCmpPred_some (fields : List Field) (c : CCmp) (ht : typedCmp fields c = true) :
    ∃ p, toCmpPred fields c = some p := by
  unfold typedCmp at ht
  cases h1 : typeOf fields c.field with
  | none => simp [h1] at ht
  | some t =>
    obtain ⟨i, hi⟩ := typeOf_colIdx fields c.field (by rw [h1]; rfl)
    exact ⟨_, by simp only [toCmpPred, hi]; rfl⟩

theorem toInnerFrom_some (fields : List Field) : ∀ (cs : List CCmp) (acc : Sql.Pred),
    cs.all (typedCmp fields) = true → ∃ p, toInnerFrom fields acc cs = some p
  | [], acc, _ => ⟨acc, rfl⟩
  | c :: cs, acc, ht => by
    simp only [List.all_cons, Bool.and_eq_true] at ht
    obtain ⟨pc, hc⟩ := toCmpPred_some fields c ht.1
    obtain ⟨p, hp⟩ := toInnerFrom_some fields cs (.and acc pc) ht.2
    exact ⟨p, by simp only [toInnerFrom, hc, hp]⟩

theorem toInner_some (fields : List Field) (e : List CCmp) (hne : e ≠ [])
    (ht : e.all (typedCmp fields) = true) : ∃ p, toInner fields e = some p := by
  cases e with
  | nil => exact absurd rfl hne
  | cons c cs =>
    simp only [List.all_cons, Bool.and_eq_true] at ht
    obtain ⟨pc, hc⟩ := toCmpPred_some fields c ht.1
    obtain ⟨p, hp⟩ := toInnerFrom_some fields cs pc ht.2
    exact ⟨p, by simp only [toInner, hc, hp]⟩

theorem toOuterFrom_some (fields : List Field) : ∀ (es : List (List CCmp)) (acc : Sql.Pred),
    typedExprs fields es = true → (∀ e ∈ es, e ≠ []) → ∃ p, toOuterFrom fields acc es = some p
  | [], acc, _, _ => ⟨acc, rfl⟩
  | e :: es, acc, ht, hne => by
    simp only [typedExprs, List.all_cons, Bool.and_eq_true] at ht
    obtain ⟨pe, he⟩ := toInner_some fields e (hne e List.mem_cons_self) ht.1
    obtain ⟨p, hp⟩ := toOuterFrom_some fields es (.or acc pe) ht.2
      (fun x hx => hne x (List.mem_cons_of_mem _ hx))
    exact ⟨p, by simp only [toOuterFrom, he, hp]⟩

theorem toPred_some (fields : List Field) (es : List (List CCmp))
    (ht : typedExprs fields es = true) (hne : ∀ e ∈ es, e ≠ []) : ∃ p, toPred fields es = some p := by
  cases es with
  | nil => exact ⟨_, rfl⟩
  | cons e es =>
    simp only [typedExprs, List.all_cons, Bool.and_eq_true] at ht
    obtain ⟨pe, he⟩ := toInner_some fields e (hne e List.mem_cons_self) ht.1
    obtain ⟨p, hp⟩ := toOuterFrom_some fields es pe ht.2 (fun x hx => hne x (List.mem_cons_of_mem _ hx))
    exact ⟨p, by simp only [toPred, he, hp]⟩

theorem toOrder_some (fields : List Field) : ∀ (order : List (Bytes × Bool)),
    (∀ o ∈ order, (typeOf fields o.1).isSome = true) → ∃ os, toOrder fields order = some os
  | [], _ => ⟨[], rfl⟩
  | (f, d) :: rest, h => by
    obtain ⟨i, hi⟩ := typeOf_colIdx fields f (h (f, d) List.mem_cons_self)
    obtain ⟨os, ho⟩ := toOrder_some fields rest (fun x hx => h x (List.mem_cons_of_mem _ hx))
    exact ⟨_, by simp only [toOrder, hi, ho]; rfl⟩

/-- every query `compile` accepts has a translation: its constants are typed and the statement is built -/
theorem compiled_translates (fields : List Field) (q : Query) (cq : CQuery) (offset : Nat)
    (h : compile fields q = .ok cq) :
    typedExprs fields cq.exprs = true ∧ ∃ pq, docPQuery fields cq offset = some pq := by
  obtain ⟨h1, h2, h3, _⟩ := compile_typed fields q cq h
  obtain ⟨p, hp⟩ := toPred_some fields cq.exprs h1 h2
  obtain ⟨os, ho⟩ := toOrder_some fields cq.order h3
  exact ⟨h1, _, by simp only [docPQuery, hp, ho]; rfl⟩

end ImmuModel.Doc.SqlBridgeAux
