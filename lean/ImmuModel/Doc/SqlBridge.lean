/-
C19 — bridge from the document model (`Doc/Doc.lean`, a specification WITHOUT indexes) to the SQL layer's
fragment model WITH indexes (`Sql/Query.lean`, `Sql/SelectPlan.lean`): the single-table SELECT that
`embedded/document` really issues for a document query.

Mirrors `embedded/document/engine.go`:
* the table of a collection (`CreateCollection`): column 0 is the id column, `BLOB[MaxDocumentIDLength]`, the
  primary key; then ONE COLUMN PER FIELD in declaration order:
  STRING → `VARCHAR[maxDocumentFieldLen]`, INTEGER → `INTEGER` (8), DOUBLE → `FLOAT` (8), BOOLEAN → `BOOLEAN` (1)
  (the widths 8/8/1 are what `Column.MaxLen()` reports for the fixed-width types and what the key codec insists on);
  THE `_doc` COLUMN (the BLOB holding the document itself, second column of the real table) IS LEFT OUT of the model
  table: it is never filtered, ordered by or indexed (`BLOB[0]` is not indexable), so the real column positions are
  the positions used here shifted by one from position 1 on; nothing in the planner depends on absolute positions;
* `generateSQLFilteringExpression`: every comparison is `CmpBoolExp{op, ColSelector(field), value}` — the column
  on the LEFT — the comparisons of one expression are chained `innerExp = And(innerExp, fieldExp)` (left nested),
  the expressions `outerExp = Or(outerExp, innerExp)` (left nested); no expression at all = `nil` WHERE clause,
  which the SQL fragment model writes `.const true`;
* `generateSQLOrderByClauses`: one `OrdExp` over the plain column per clause;
* the secondary indexes of the collection (`CREATE INDEX ON coll(fields…)`, creation order); an index on the id
  field alone is not created (`continue`: it is the primary index);
* `GetDocuments`/`ReplaceDocuments`/`DeleteDocuments` read the id from `row.ValuesByPosition[0].RawValue().([]byte)`:
  a first column that is not a BLOB would be a failed type assertion (`ixSearch` answers an error; it is unreachable,
  `docTable` puts a BLOB there).

Rows of the table are the typed views of the LIVE documents (`liveHits`), the id column being the document's id.
A field of type `CType.id` other than the id column does not exist in the engine (UUID fields are outside the model);
for totality it is given the id column's type.
Core Lean only (used by the driver).  Names of the SQL model are always written with the `Sql.` prefix: both
namespaces define `Row`, `Query`, `ordCmp`, `isNaN`, ….
-/
import ImmuModel.Doc.Doc
import ImmuModel.Sql.SelectPlan
namespace ImmuModel.Doc
open ImmuModel

-- ------------------------------------------------------------------ values, columns, rows

/-- typed value of the document layer as the SQL `TypedValue` it is (`structValueToSqlValue` builds these) -/
def toVal : SVal → Sql.Val
  | .null => .null
  | .int i => .int i
  | .f64 b => .float b
  | .str s => .str s
  | .bool b => .bool b
  | .id b => .blob b

/-- `protomodelValueTypeToSQLValueType` + `sqlValueTypeDefaultLength` / `Column.MaxLen()` -/
def colOf : CType → Sql.Col
  | .str => ⟨.varchar, (maxDocumentFieldLen : Int)⟩
  | .int => ⟨.integer, 8⟩
  | .f64 => ⟨.float64, 8⟩
  | .bool => ⟨.boolean, 1⟩
  | .id => ⟨.blob, (maxDocumentIDLength : Int)⟩

/-- the id column, then one column per field (the `_doc` column is left out, see the header) -/
def docCols (fields : List Field) : List Sql.Col := colOf .id :: fields.map (fun f => colOf f.ty)

/-- position of the FIRST field called `name` (as `typeOf`'s `find?`) -/
def fieldPos (name : Bytes) : List Field → Option Nat
  | [] => none
  | f :: fs => if f.name = name then some 0 else (fieldPos name fs).map (· + 1)

/-- `getColumnForField` / column resolution of a `ColSelector`: position in `docCols` -/
def colIdx (fields : List Field) (name : Bytes) : Option Nat :=
  if name = idField then some 0 else (fieldPos name fields).map (· + 1)

def toSqlRow (fields : List Field) (h : Hit) : Sql.Row :=
  .blob h.id :: fields.map (fun f => toVal (rowGet h.row f.name))

/-- the SQL table behind the collection: the live documents in primary-key order -/
def docTable (c : Coll) : Sql.Table :=
  { cols := docCols c.fields, pk := [0], rows := (liveHits c).map (toSqlRow c.fields) }

-- ------------------------------------------------------------------ the statement

/-- `sqlCmpOperatorFor` -/
def toCmpOp : Op → Sql.CmpOp
  | .eq => .eq | .ne => .ne | .lt => .lt | .le => .le | .gt => .gt | .ge => .ge

/-- one `CmpBoolExp`: column selector on the left, the converted value on the right -/
def toCmpPred (fields : List Field) (c : CCmp) : Option Sql.Pred :=
  match colIdx fields c.field with
  | none => none
  | some i => some (.cmp i (toCmpOp c.op) false (toVal c.val))

/-- the rest of the inner loop: `innerExp = And(innerExp, fieldExp)` -/
def toInnerFrom (fields : List Field) (acc : Sql.Pred) : List CCmp → Option Sql.Pred
  | [] => some acc
  | c :: cs =>
    match toCmpPred fields c with
    | none => none
    | some p => toInnerFrom fields (.and acc p) cs

/-- one query expression; `none` also for an expression without comparison (the engine refuses it:
`compile` never produces one) -/
def toInner (fields : List Field) : List CCmp → Option Sql.Pred
  | [] => none
  | c :: cs =>
    match toCmpPred fields c with
    | none => none
    | some p => toInnerFrom fields p cs

/-- the rest of the outer loop: `outerExp = Or(outerExp, innerExp)` -/
def toOuterFrom (fields : List Field) (acc : Sql.Pred) : List (List CCmp) → Option Sql.Pred
  | [] => some acc
  | e :: es =>
    match toInner fields e with
    | none => none
    | some p => toOuterFrom fields (.or acc p) es

/-- `generateSQLFilteringExpression` on the compiled comparisons -/
def toPred (fields : List Field) : List (List CCmp) → Option Sql.Pred
  | [] => some (.const true)
  | e :: es =>
    match toInner fields e with
    | none => none
    | some p => toOuterFrom fields p es

/-- `generateSQLOrderByClauses` with the columns resolved -/
def toOrder (fields : List Field) : List (Bytes × Bool) → Option (List Sql.OrdCol)
  | [] => some []
  | (f, desc) :: rest =>
    match colIdx fields f, toOrder fields rest with
    | some i, some os => some (⟨i, desc⟩ :: os)
    | _, _ => none

def toIndex (fields : List Field) : List Bytes → Option (List Nat)
  | [] => some []
  | f :: fs =>
    match colIdx fields f, toIndex fields fs with
    | some i, some is => some (i :: is)
    | _, _ => none

/-- the secondary indexes (lists of field names, creation order) as column lists; an index on the id field
alone is skipped as `CreateCollection` skips it -/
def toSecs (fields : List Field) : List (List Bytes) → Option (List (List Nat))
  | [] => some []
  | ix :: rest =>
    if ix = [idField] then toSecs fields rest
    else
      match toIndex fields ix, toSecs fields rest with
      | some i, some is => some (i :: is)
      | _, _ => none

/-- `SELECT _id[, _doc] FROM coll WHERE … ORDER BY … LIMIT q.limit OFFSET offset` (no `USE INDEX`) -/
def docPQuery (fields : List Field) (q : CQuery) (offset : Nat) : Option Sql.PQuery :=
  match toPred fields q.exprs, toOrder fields q.order with
  | some p, some o => some { hint := none, order := o, limit := q.limit, offset := offset, where_ := p }
  | _, _ => none

/-- `row.ValuesByPosition[0].RawValue().([]byte)` -/
def rowId : Sql.Row → Option Bytes
  | .blob b :: _ => some b
  | _ => none

def rowIds : List Sql.Row → Option (List Bytes)
  | [] => some []
  | r :: rs =>
    match rowId r, rowIds rs with
    | some i, some is => some (i :: is)
    | _, _ => none

/-- the document query answered by the SQL planner model over the secondary indexes `secs`: the plan that
`genScanSpecs` chooses and the ids in the order the rows are produced -/
def ixSearch (c : Coll) (secs : List (List Bytes)) (q : CQuery) (offset : Nat) :
    Except String (Sql.Plan × List Bytes) :=
  match docPQuery c.fields q offset, toSecs c.fields secs with
  | some pq, some ss =>
    match Sql.runPlan (docTable c) ss pq with
    | .error _ => .error "eval"
    | .ok (pl, rows) =>
      match rowIds rows with
      | some ids => .ok (pl, ids)
      | none => .error "panic"
  | _, _ => .error "column"

-- ------------------------------------------------------------------ specification predicates

/-- the value has the kind of the type, or is NULL -/
def typedVal : CType → SVal → Bool
  | _, .null => true
  | .str, .str _ => true
  | .int, .int _ => true
  | .f64, .f64 _ => true
  | .bool, .bool _ => true
  | .id, .id _ => true
  | _, _ => false

/-- the comparison is over an existing field and its constant has the field's type (what `compile` produces) -/
def typedCmp (fields : List Field) (c : CCmp) : Bool :=
  match typeOf fields c.field with
  | some t => typedVal t c.val
  | none => false

def typedExprs (fields : List Field) (es : List (List CCmp)) : Bool := es.all (fun e => e.all (typedCmp fields))

/-- the constant fits the column it is compared with (a VARCHAR of at most `maxDocumentFieldLen` bytes, an id of
at most `MaxDocumentIDLength` bytes, an int64, a 64-bit float pattern) and is neither a NaN nor −0.0 -/
def plainSVal : SVal → Bool
  | .null => true
  | .int i => decide (GoInt.InI64 i)
  | .f64 b => decide (b < GoInt.two64) && !Sql.isNaN b && !(Sql.isZeroF b && b != 0)
  | .str s => decide (s.length ≤ maxDocumentFieldLen)
  | .bool _ => true
  | .id b => decide (b.length ≤ maxDocumentIDLength)

def plainExprs (es : List (List CCmp)) : Bool := es.all (fun e => e.all (fun c => plainSVal c.val))

/-- every live document's typed view carries the document's id in the id column (what `toRow` of a document
provisioned with its id produces) -/
def idsConsistent (c : Coll) : Bool := (liveHits c).all (fun h => rowGet h.row idField == .id h.id)

end ImmuModel.Doc
