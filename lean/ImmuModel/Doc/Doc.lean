/-
C19 — model of the document layer (`embedded/document`): JSON documents, the typed view
(`generateRowSpecForDocument` / `structValueFromFieldPath` / `structValueToSqlValue`), collections as
lists of (id, revisions), queries in disjunctive normal form (`generateSQLFilteringExpression`),
ORDER BY / OFFSET / LIMIT, count, audit, replace-by-query and delete-by-query.

The model MIRRORS THE CODE:
* the row (typed view) is computed when a document is upserted and stored with the revision; a field added to
  the collection later is NULL for the rows written before (`rowGet` of a missing column);
* `structValueFromFieldPath`: `strings.SplitN(path, ".", 3)`; a missing key / a non-object on the way gives
  "does not exist", which `generateRowSpecForDocument` turns into NULL, as it does for JSON null;
* INTEGER columns: `int64(float64)` as compiled on amd64 (CVTTSD2SI): truncation toward zero, every value
  outside [-2^63, 2^63) — and NaN/±Inf — becomes -2^63 (`f2i`);
* comparisons are the `Compare` methods of embedded/sql: NULL is the smallest value and NULL = NULL; there is
  no three-valued logic (`cmpS`);  float comparison is `(*Float64).Compare` (−1 as soon as a NaN is involved);
* the scan order is the primary-key order (documents are kept sorted by id); ORDER BY is a sort of the
  filtered rows (the model sorts stably; the engine's `sort.Slice` leaves the order of ties unspecified — the
  correspondence compares modulo ties), then OFFSET, then LIMIT (0 = no limit).

Outside the model (oracle only): UUID fields, LIKE / NOT_LIKE, secondary and unique indexes (the planner),
field-name validation, the 4-byte/8-byte layout of generated ids, proofs.
Core Lean only.
-/
import ImmuModel.Base.Bytes
import ImmuModel.Base.Lex
import ImmuModel.Gen.C19
namespace ImmuModel.Doc
open ImmuModel

-- ------------------------------------------------------------------ JSON values (structpb.Value)

/-- `structpb.Value`: numbers are IEEE-754 binary64 bit patterns (< 2^64), strings and keys are their
UTF-8 bytes, objects are association lists (the Go map has no duplicate keys). -/
inductive JVal where
  | null
  | bool (b : Bool)
  | num (bits : Nat)
  | str (s : Bytes)
  | list (xs : List JVal)
  | obj (kvs : List (Bytes × JVal))
  deriving Inhabited

abbrev JObj := List (Bytes × JVal)

def assoc {β : Type} (k : Bytes) : List (Bytes × β) → Option β
  | [] => none
  | (k', v) :: rest => if k' = k then some v else assoc k rest

/-- `m[k] = v` on the association list (replace the binding or append). -/
def setKey {β : Type} (k : Bytes) (v : β) : List (Bytes × β) → List (Bytes × β)
  | [] => [(k, v)]
  | (k', v') :: rest => if k' = k then (k, v) :: rest else (k', v') :: setKey k v rest

theorem assoc_setKey_same {β : Type} (k : Bytes) (v : β) (l : List (Bytes × β)) :
    assoc k (setKey k v l) = some v := by
  induction l with
  | nil => simp [setKey, assoc]
  | cons h t ih =>
    obtain ⟨k', v'⟩ := h
    by_cases hk : k' = k
    · simp [setKey, assoc, hk]
    · simp [setKey, assoc, hk, ih]

-- ------------------------------------------------------------------ field paths

def dot : UInt8 := 46

/-- first "." of the byte string: (before, after) -/
def breakDot : Bytes → Option (Bytes × Bytes)
  | [] => none
  | b :: rest =>
    if b = dot then some ([], rest)
    else match breakDot rest with
      | none => none
      | some (a, r) => some (b :: a, r)

/-- `strings.SplitN(s, ".", n)` (n ≥ 0; n = 0 gives nil). -/
def splitN : Nat → Bytes → List Bytes
  | 0, _ => []
  | 1, s => [s]
  | n+2, s =>
    match breakDot s with
    | none => [s]
    | some (a, rest) => a :: splitN (n+1) rest

/-- `DefaultDocumentMaxNestedFields` (extracted from /repo on every run) -/
def maxNestedFields : Nat := Gen.docMaxNestedFields

/-- `structValueFromFieldPath` on the already split path; `none` = ErrFieldDoesNotExist. -/
def lookupParts : JObj → List Bytes → Option JVal
  | _, [] => none
  | kvs, [f] => assoc f kvs
  | kvs, f :: g :: rest =>
    match assoc f kvs with
    | some (.obj kvs') => lookupParts kvs' (g :: rest)
    | _ => none

def lookupPath (doc : JObj) (path : Bytes) : Option JVal :=
  lookupParts doc (splitN maxNestedFields path)

-- ------------------------------------------------------------------ SQL values and conversions

inductive CType where
  | str | bool | int | f64 | id
  deriving DecidableEq, Repr, Inhabited

inductive SVal where
  | null
  | int (i : Int)
  | f64 (bits : Nat)
  | str (s : Bytes)
  | bool (b : Bool)
  | id (b : Bytes)
  deriving DecidableEq, Repr, Inhabited

inductive Err where
  | unexpectedValue | fieldNotFound | columnNotFound | illegal | reserved | hex | maxLength
  | fieldExists | noCollection | docNotFound | noMoreEntries
  deriving DecidableEq, Repr, Inhabited

def two52 : Nat := 4503599627370496
def two63 : Nat := 9223372036854775808
def minInt64 : Int := -9223372036854775808

/-- `int64(f)` for a float64 with bit pattern `bits`, as compiled for amd64 (CVTTSD2SI):
truncation toward zero; out of range, NaN and ±Inf give the "integer indefinite" value -2^63. -/
def f2i (bits : Nat) : Int :=
  let sign := bits / two63 % 2
  let e := bits / two52 % 2048
  let frac := bits % two52
  if e = 2047 then minInt64
  else
    let m := if e = 0 then frac else frac + two52
    let ex := if e = 0 then 1 else e
    -- value = m * 2^(ex - 1075)
    let mag : Nat := if ex ≥ 1075 then (if ex - 1075 ≥ 12 then two63 * 2 else m * 2 ^ (ex - 1075)) else m / 2 ^ (1075 - ex)
    let v : Int := if sign = 1 then -(mag : Int) else (mag : Int)
    if minInt64 ≤ v ∧ v < (two63 : Int) then v else minInt64

def hexNib (c : UInt8) : Option Nat :=
  if 48 ≤ c.toNat ∧ c.toNat ≤ 57 then some (c.toNat - 48)
  else if 97 ≤ c.toNat ∧ c.toNat ≤ 102 then some (c.toNat - 87)
  else if 65 ≤ c.toNat ∧ c.toNat ≤ 70 then some (c.toNat - 55)
  else none

/-- `hex.Decode` of an ASCII string -/
def hexDecode : Bytes → Option Bytes
  | [] => some []
  | [_] => none
  | a :: b :: rest =>
    match hexNib a, hexNib b, hexDecode rest with
    | some x, some y, some r => some (UInt8.ofNat (16 * x + y) :: r)
    | _, _, _ => none

def hexChar (n : Nat) : UInt8 := if n < 10 then UInt8.ofNat (48 + n) else UInt8.ofNat (87 + n)

/-- `hex.EncodeToString` as ASCII bytes -/
def hexEncode (bs : Bytes) : Bytes :=
  bs.flatMap fun b => [hexChar (b.toNat / 16), hexChar (b.toNat % 16)]

/-- `MaxDocumentIDLength`, `maxDocumentFieldLen` (extracted) -/
def maxDocumentIDLength : Nat := Gen.docMaxIDLength
def maxDocumentFieldLen : Nat := Gen.docMaxFieldLen

/-- `NewDocumentIDFromHexEncodedString` -/
def docIDFromHex (s : Bytes) : Except Err Bytes :=
  match hexDecode s with
  | none => .error .hex
  | some raw =>
    if raw.length = 0 then .error .illegal
    else if raw.length > maxDocumentIDLength then .error .maxLength
    else .ok raw

/-- `structValueToSqlValue`: null is NULL for every type, otherwise the kind must match the column type. -/
def conv (v : JVal) (t : CType) : Except Err SVal :=
  match v with
  | .null => .ok .null
  | _ =>
    match t, v with
    | .str, .str s => .ok (.str s)
    | .int, .num bits => .ok (.int (f2i bits))
    | .f64, .num bits => .ok (.f64 bits)
    | .bool, .bool b => .ok (.bool b)
    | .id, .str s => (docIDFromHex s).map .id
    | _, _ => .error .unexpectedValue

structure Field where
  name : Bytes
  ty : CType
  deriving DecidableEq, Repr, Inhabited

abbrev Row := List (Bytes × SVal)

def idField : Bytes := [95, 105, 100]        -- "_id"
def blobField : Bytes := [95, 100, 111, 99]  -- "_doc"

/-- column value of a stored row; a column the row does not have (added later) reads NULL -/
def rowGet (r : Row) (f : Bytes) : SVal := (assoc f r).getD .null

/-- one column of `generateRowSpecForDocument` -/
def colValue (doc : JObj) (f : Field) : Except Err SVal :=
  match lookupPath doc f.name with
  | none => .ok .null
  | some v => conv v f.ty

def toRowFields (doc : JObj) : List Field → Except Err Row
  | [] => .ok []
  | f :: fs =>
    match colValue doc f with
    | .error e => .error e
    | .ok v =>
      match toRowFields doc fs with
      | .error e => .error e
      | .ok r => .ok ((f.name, v) :: r)

/-- the typed view: the id column first, then the fields in column order -/
def toRow (fields : List Field) (doc : JObj) : Except Err Row :=
  toRowFields doc ({ name := idField, ty := .id } :: fields)

/-- VARCHAR[512]: enforced by the SQL layer when the row is encoded -/
def rowTooLong (r : Row) : Bool :=
  r.any fun kv => match kv.2 with | .str s => decide (s.length > maxDocumentFieldLen) | _ => false

-- ------------------------------------------------------------------ comparisons (embedded/sql Compare)

def isNaN (bits : Nat) : Bool := bits % two63 > 0x7FF0000000000000

def floatKey (bits : Nat) : Int :=
  if bits < two63 then (bits : Int) else -(((bits - two63 : Nat) : Int))

/-- `(*Float64).Compare`: `==` → 0, `>` → 1, otherwise −1 -/
def floatCompare (a b : Nat) : Int :=
  if isNaN a || isNaN b then -1
  else if floatKey a = floatKey b then 0
  else if floatKey a > floatKey b then 1 else -1

def intCompare (a b : Int) : Int := if a = b then 0 else if a > b then 1 else -1

def boolCompare (a b : Bool) : Int := if a = b then 0 else if a then 1 else -1

/-- column value against filter value.  After `compile` both have the column's type or are NULL; the last
case (different kinds) is unreachable there and only makes the function total. -/
def cmpS : SVal → SVal → Int
  | .null, .null => 0
  | .null, _ => -1
  | _, .null => 1
  | .int a, .int b => intCompare a b
  | .f64 a, .f64 b => floatCompare a b
  | .str a, .str b => bytesCompare a b
  | .bool a, .bool b => boolCompare a b
  | .id a, .id b => bytesCompare a b
  | _, _ => 0

inductive Op where
  | eq | ne | lt | le | gt | ge
  deriving DecidableEq, Repr, Inhabited

/-- `cmpSatisfiesOp` -/
def satisfies (r : Int) : Op → Bool
  | .eq => r == 0
  | .ne => r != 0
  | .lt => r < 0
  | .le => r ≤ 0
  | .gt => r > 0
  | .ge => r ≥ 0

-- ------------------------------------------------------------------ queries

structure Cmp where
  field : Bytes
  op : Op
  val : JVal

structure Query where
  exprs : List (List Cmp)
  order : List (Bytes × Bool)   -- (field, desc)
  limit : Nat

/-- comparison after `structValueToSqlValue` of the filter value -/
structure CCmp where
  field : Bytes
  op : Op
  val : SVal
  deriving DecidableEq, Repr

structure CQuery where
  exprs : List (List CCmp)
  order : List (Bytes × Bool)
  limit : Nat

def typeOf (fields : List Field) (name : Bytes) : Option CType :=
  if name = idField then some .id
  else (fields.find? (fun f => f.name = name)).map (·.ty)

def compileCmp (fields : List Field) (c : Cmp) : Except Err CCmp :=
  match typeOf fields c.field with
  | none => .error .fieldNotFound
  | some t =>
    match conv c.val t with
    | .error e => .error e
    | .ok v => .ok { field := c.field, op := c.op, val := v }

def compileExpr (fields : List Field) : List Cmp → Except Err (List CCmp)
  | [] => .ok []
  | c :: cs =>
    match compileCmp fields c with
    | .error e => .error e
    | .ok c' =>
      match compileExpr fields cs with
      | .error e => .error e
      | .ok cs' => .ok (c' :: cs')

def compileExprs (fields : List Field) : List (List Cmp) → Except Err (List (List CCmp))
  | [] => .ok []
  | e :: es =>
    if e.isEmpty then .error .illegal
    else match compileExpr fields e with
      | .error er => .error er
      | .ok e' =>
        match compileExprs fields es with
        | .error er => .error er
        | .ok es' => .ok (e' :: es')

/-- `generateSQLFilteringExpression`, then the ORDER BY columns are resolved by the SQL layer -/
def compile (fields : List Field) (q : Query) : Except Err CQuery :=
  match compileExprs fields q.exprs with
  | .error e => .error e
  | .ok es =>
    if q.order.all (fun o => (typeOf fields o.1).isSome) then .ok { exprs := es, order := q.order, limit := q.limit }
    else .error .columnNotFound

def evalCmp (r : Row) (c : CCmp) : Bool := satisfies (cmpS (rowGet r c.field) c.val) c.op

/-- disjunction of conjunctions; no expression = no WHERE clause -/
def rowMatches (es : List (List CCmp)) (r : Row) : Bool :=
  es.isEmpty || es.any (fun e => e.all (evalCmp r))

/-- ORDER BY comparison of two rows: first non-zero column comparison, negated for DESC -/
def ordCmp : List (Bytes × Bool) → Row → Row → Int
  | [], _, _ => 0
  | (f, desc) :: rest, a, b =>
    let r := cmpS (rowGet a f) (rowGet b f)
    let r := if desc then -r else r
    if r = 0 then ordCmp rest a b else r

-- ------------------------------------------------------------------ collections

structure Rev where
  doc : Option JObj     -- none: the revision is a deletion
  row : Row             -- typed view computed when the revision was written

structure DocEntry where
  id : Bytes
  revs : List Rev

structure Coll where
  fields : List Field
  docs : List DocEntry  -- in primary-key (id) order

structure Hit where
  id : Bytes
  row : Row
  doc : JObj

def lastRev (d : DocEntry) : Option Rev := d.revs.getLast?

def liveHit (d : DocEntry) : Option Hit :=
  match lastRev d with
  | some { doc := some j, row := r } => some { id := d.id, row := r, doc := j }
  | _ => none

/-- the table scan: live documents in primary-key order -/
def liveHits (c : Coll) : List Hit := c.docs.filterMap liveHit

/-- stable insertion sort: `x` precedes the elements of the list in the input, so it goes before the first
element it is not greater than -/
def insertBy {α : Type} (le : α → α → Bool) (x : α) : List α → List α
  | [] => [x]
  | y :: ys => if le x y then x :: y :: ys else y :: insertBy le x ys

def isort {α : Type} (le : α → α → Bool) : List α → List α
  | [] => []
  | x :: xs => insertBy le x (isort le xs)

def hitLe (order : List (Bytes × Bool)) (a b : Hit) : Bool := ordCmp order a.row b.row ≤ 0

def window {α : Type} (offset limit : Nat) (l : List α) : List α :=
  let l := l.drop offset
  if limit = 0 then l else l.take limit

/-- all matches in result order (no paging) -/
def matchesSorted (c : Coll) (q : CQuery) : List Hit :=
  let ms := (liveHits c).filter (fun h => rowMatches q.exprs h.row)
  if q.order.isEmpty then ms else isort (hitLe q.order) ms

def searchHits (c : Coll) (q : CQuery) (offset : Nat) : List Hit :=
  window offset q.limit (matchesSorted c q)

/-- `GetDocuments(query, offset)` read to the end: the ids in result order -/
def search (c : Coll) (q : CQuery) (offset : Nat) : List Bytes := (searchHits c q offset).map (·.id)

/-- `CountDocuments`: COUNT(*) over the same sub-select (filter, order, limit, offset) -/
def count (c : Coll) (q : CQuery) (offset : Nat) : Nat :=
  ((window offset q.limit (matchesSorted c q)).map (fun _ => (1 : Nat))).sum

def findDoc (c : Coll) (id : Bytes) : Option DocEntry := c.docs.find? (fun d => d.id = id)

/-- latest live content of a document -/
def get (c : Coll) (id : Bytes) : Option JObj :=
  match findDoc c id with
  | none => none
  | some d => match liveHit d with | some h => some h.doc | none => none

-- ------------------------------------------------------------------ writes

def hasKey (doc : JObj) (k : Bytes) : Bool := (assoc k doc).isSome

def withId (doc : JObj) (id : Bytes) : JObj := setKey idField (.str (hexEncode id)) doc

/-- sorted insertion by id (`bytes.Compare`), new entry after the smaller-or-equal ones -/
def insertEntry (e : DocEntry) : List DocEntry → List DocEntry
  | [] => [e]
  | d :: ds => if lexLt e.id d.id then e :: d :: ds else d :: insertEntry e ds

/-- the per-document part of `upsertDocuments` for an insert (the id has been generated): reserved `_doc`,
provisioned id, then the row -/
def prepareInsert (fields : List Field) (id : Bytes) (doc : JObj) : Except Err (JObj × Row) :=
  if hasKey doc blobField then .error .reserved
  else if hasKey doc idField then .error .illegal
  else
    let full := withId doc id
    match toRow fields full with
    | .error e => .error e
    | .ok r => .ok (full, r)

def prepareAll (fields : List Field) : List (Bytes × JObj) → Except Err (List (Bytes × JObj × Row))
  | [] => .ok []
  | (id, doc) :: rest =>
    match prepareInsert fields id doc with
    | .error e => .error e
    | .ok (full, r) =>
      match prepareAll fields rest with
      | .error e => .error e
      | .ok ps => .ok ((id, full, r) :: ps)

def addNew (docs : List DocEntry) : List (Bytes × JObj × Row) → List DocEntry
  | [] => docs
  | (id, full, r) :: rest => addNew (insertEntry { id := id, revs := [{ doc := some full, row := r }] } docs) rest

/-- `InsertDocuments` with the generated ids: all documents are converted first, then the rows are written
(where the VARCHAR limit bites); all or nothing. -/
def insertBatch (c : Coll) (items : List (Bytes × JObj)) : Except Err Coll :=
  if items.isEmpty then .error .illegal
  else match prepareAll c.fields items with
    | .error e => .error e
    | .ok ps =>
      if ps.any (fun p => rowTooLong p.2.2) then .error .maxLength
      else .ok { c with docs := addNew c.docs ps }

def insert (c : Coll) (id : Bytes) (doc : JObj) : Except Err Coll := insertBatch c [(id, doc)]

def appendRev (id : Bytes) (rv : Rev) : List DocEntry → List DocEntry
  | [] => []
  | d :: ds => if d.id = id then { d with revs := d.revs ++ [rv] } :: ds else d :: appendRev id rv ds

/-- a new revision of an existing document (the upsert of ReplaceDocuments for one id); the document carries its id -/
def replaceOne (c : Coll) (id : Bytes) (full : JObj) : Except Err Coll :=
  match findDoc c id with
  | none => .error .docNotFound
  | some _ =>
    match toRow c.fields full with
    | .error e => .error e
    | .ok r => if rowTooLong r then .error .maxLength else .ok { c with docs := appendRev id { doc := some full, row := r } c.docs }

def deleteOne (c : Coll) (id : Bytes) : Coll :=
  { c with docs := appendRev id { doc := none, row := [] } c.docs }

def revCount (c : Coll) (id : Bytes) : Nat :=
  match findDoc c id with | some d => d.revs.length | none => 0

/-- the query as `ReplaceDocuments` rewrites it when the new document carries the id field -/
def injectId (q : Query) (doc : JObj) : Query :=
  match assoc idField doc with
  | none => q
  | some v =>
    let c : Cmp := { field := idField, op := .eq, val := v }
    if q.exprs.isEmpty then { q with exprs := [[c]] }
    else { q with exprs := q.exprs.map (fun e => c :: e) }

def prepareReplace (fields : List Field) (doc : JObj) : List Bytes → Except Err (List (Bytes × JObj × Row))
  | [] => .ok []
  | id :: rest =>
    let full := if hasKey doc idField then doc else withId doc id
    match toRow fields full with
    | .error e => .error e
    | .ok r =>
      match prepareReplace fields doc rest with
      | .error e => .error e
      | .ok ps => .ok ((id, full, r) :: ps)

def applyReplace (c : Coll) : List (Bytes × JObj × Row) → Coll
  | [] => c
  | (id, full, r) :: rest => applyReplace { c with docs := appendRev id { doc := some full, row := r } c.docs } rest

/-- `ReplaceDocuments(query, doc)`: select the ids (filter, order, limit), build the new documents, upsert
them; answers (id, new revision number) in selection order. -/
def replaceQ (c : Coll) (q : Query) (doc : JObj) : Except Err (Coll × List (Bytes × Nat)) :=
  match compile c.fields (injectId q doc) with
  | .error e => .error e
  | .ok cq =>
    let ids := search c cq 0
    if ids.isEmpty then .ok (c, [])
    else if hasKey doc blobField then .error .reserved
    else match prepareReplace c.fields doc ids with
      | .error e => .error e
      | .ok ps =>
        if ps.any (fun p => rowTooLong p.2.2) then .error .maxLength
        else
          let c' := applyReplace c ps
          .ok (c', ids.map (fun id => (id, revCount c' id)))

/-- `DeleteDocuments(query)` -/
def deleteQ (c : Coll) (q : Query) : Except Err (Coll × List Bytes) :=
  match compile c.fields q with
  | .error e => .error e
  | .ok cq =>
    let ids := search c cq 0
    .ok (ids.foldl deleteOne c, ids)

-- ------------------------------------------------------------------ audit

def numberFrom {α : Type} : Nat → List α → List (Nat × α)
  | _, [] => []
  | n, x :: xs => (n, x) :: numberFrom (n+1) xs

/-- all revisions with their revision numbers (1-based, `valRef.HC()`), oldest first -/
def history (d : DocEntry) : List (Nat × Option JObj) := numberFrom 1 (d.revs.map (·.doc))

/-- `AuditDocument(id, desc, offset, limit)`: the key history from `offset` in the requested direction -/
def audit (c : Coll) (id : Bytes) (desc : Bool) (offset limit : Nat) : Except Err (List (Nat × Option JObj)) :=
  match findDoc c id with
  | none => .error .docNotFound
  | some d =>
    let h := history d
    let h := if desc then h.reverse else h
    if offset ≥ h.length then .error .noMoreEntries
    else .ok ((h.drop offset).take limit)

-- ------------------------------------------------------------------ schema changes

/-- `AddField`: a new column; existing rows do not have it (they read NULL) -/
def addField (c : Coll) (f : Field) : Except Err Coll :=
  if f.name = idField ∨ (c.fields.any (fun g => g.name = f.name)) then .error .fieldExists
  else .ok { c with fields := c.fields ++ [f] }

def eraseCol (name : Bytes) (r : Row) : Row := r.filter (fun kv => kv.1 ≠ name)

/-- `RemoveField`: the column and its stored values are gone (a later column of the same name is new) -/
def removeField (c : Coll) (name : Bytes) : Except Err Coll :=
  if c.fields.any (fun g => g.name = name) then
    .ok { fields := c.fields.filter (fun g => g.name ≠ name),
          docs := c.docs.map (fun d => { d with revs := d.revs.map (fun rv => { rv with row := eraseCol name rv.row }) }) }
  else .error .fieldNotFound

end ImmuModel.Doc
