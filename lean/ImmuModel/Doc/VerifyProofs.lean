/-
C19 (g): helper lemmas about `ImmuModel/Doc/Verify.lean` (inversion of an accepting run of `verifyDocument`).
The property theorems are in `ImmuModel/Props/C19.lean`.
-/
import ImmuModel.Doc.Verify
import ImmuModel.Store.Proofs.C01Proofs
import ImmuModel.Tx.RecordAuth

set_option linter.unusedSectionVars false

namespace ImmuModel.DocVerify.VerifyAux
open ImmuModel.Tx ImmuModel.Merkle ImmuModel.Store ImmuModel.DocVerify
variable {D : Type} [DecidableEq D]

/-- `countKey` only grows the counter. -/
theorem countKey_ge (hs : Hs D) (encKey encDoc : Bytes) : ∀ (es : List (TxEntry D)) (n m : Nat),
    countKey hs encKey encDoc es n = .ok m → n ≤ m := by
  intro es
  induction es with
  | nil => intro n m h; simp [countKey] at h; omega
  | cons e es ih =>
    intro n m h
    unfold countKey at h
    by_cases hk : e.key = encKey
    · rw [if_pos hk] at h
      by_cases hv : hs.H encDoc ≠ e.hValue
      · rw [if_pos hv] at h; cases h
      · rw [if_neg hv] at h
        have := ih _ _ h
        omega
    · rw [if_neg hk] at h
      exact ih _ _ h

/-- the entry loop fails with `ErrInvalidProof` only. -/
theorem countKey_error (hs : Hs D) (encKey encDoc : Bytes) : ∀ (es : List (TxEntry D)) (n : Nat) (e : Err),
    countKey hs encKey encDoc es n = .error e → e = .invalidProof := by
  intro es
  induction es with
  | nil => intro n e h; simp [countKey] at h
  | cons x es ih =>
    intro n e h
    unfold countKey at h
    by_cases hk : x.key = encKey
    · rw [if_pos hk] at h
      by_cases hv : hs.H encDoc ≠ x.hValue
      · rw [if_pos hv] at h
        injection h with h
        exact h.symm
      · rw [if_neg hv] at h
        exact ih _ _ h
    · rw [if_neg hk] at h
      exact ih _ _ h

/-- an encoded document shorter than a slice offset: refused with `ErrInvalidProof`, whatever else the proof holds. -/
theorem verifyDocument_outOfRange (hs : Hs D) (sigOk : Client.State D → Bool) (encKey : Bytes)
    (known : Client.State D) (p : Proof D) :
    verifyDocument hs sigOk encKey .outOfRange known p = some (.error .invalidProof) := by
  unfold verifyDocument
  split
  · rename_i e he
    rw [countKey_error hs encKey p.encDoc p.entries 0 e he]
  · rename_i n hn
    by_cases hn1 : n ≠ 1
    · rw [if_pos hn1]
    · rw [if_neg hn1]

/-- A successful count that moved: some entry has the key and carries the hash of the encoded document. -/
theorem countKey_found (hs : Hs D) (encKey encDoc : Bytes) : ∀ (es : List (TxEntry D)) (n m : Nat),
    countKey hs encKey encDoc es n = .ok m → n < m →
    ∃ e ∈ es, e.key = encKey ∧ e.hValue = hs.H encDoc := by
  intro es
  induction es with
  | nil => intro n m h hlt; simp [countKey] at h; omega
  | cons e es ih =>
    intro n m h hlt
    unfold countKey at h
    by_cases hk : e.key = encKey
    · rw [if_pos hk] at h
      by_cases hv : hs.H encDoc ≠ e.hValue
      · rw [if_pos hv] at h; cases h
      · exact ⟨e, List.mem_cons_self, hk, (Classical.not_not.mp hv).symm⟩
    · rw [if_neg hk] at h
      obtain ⟨x, hx, h1, h2⟩ := ih _ _ h hlt
      exact ⟨x, List.mem_cons_of_mem _ hx, h1, h2⟩

/-- Every entry with the key carries the hash of the encoded document when the count succeeds. -/
theorem countKey_all (hs : Hs D) (encKey encDoc : Bytes) : ∀ (es : List (TxEntry D)) (n m : Nat),
    countKey hs encKey encDoc es n = .ok m →
    ∀ e ∈ es, e.key = encKey → e.hValue = hs.H encDoc := by
  intro es
  induction es with
  | nil => intro n m _ e he; cases he
  | cons x es ih =>
    intro n m h e he hke
    unfold countKey at h
    by_cases hk : x.key = encKey
    · rw [if_pos hk] at h
      by_cases hv : hs.H encDoc ≠ x.hValue
      · rw [if_pos hv] at h; cases h
      · rw [if_neg hv] at h
        rcases List.mem_cons.mp he with rfl | he'
        · exact (Classical.not_not.mp hv).symm
        · exact ih _ _ h e he' hke
    · rw [if_neg hk] at h
      rcases List.mem_cons.mp he with rfl | he'
      · exact absurd hke hk
      · exact ih _ _ h e he' hke

theorem bound_inv (xId : Nat) (xAlh : D) (sId tId : Nat) (sAlh tAlh : D)
    (h : bound xId xAlh sId tId sAlh tAlh = true) :
    (xId = sId ∧ xAlh = sAlh) ∨ (xId = tId ∧ xAlh = tAlh) := by
  unfold bound at h
  by_cases h1 : xId ≠ sId ∧ xId ≠ tId
  · rw [if_pos h1] at h; cases h
  · rw [if_neg h1] at h
    by_cases h2 : xId = sId ∧ xAlh ≠ sAlh
    · rw [if_pos h2] at h; cases h
    · rw [if_neg h2] at h
      by_cases h3 : xId = tId ∧ xAlh ≠ tAlh
      · rw [if_pos h3] at h; cases h
      · by_cases hs : xId = sId
        · exact Or.inl ⟨hs, Classical.byContradiction fun x => h2 ⟨hs, x⟩⟩
        · have ht : xId = tId := Classical.byContradiction fun x => h1 ⟨hs, x⟩
          exact Or.inr ⟨ht, Classical.byContradiction fun x => h3 ⟨ht, x⟩⟩

theorem knownOk_inv (known : Client.State D) (sId tId : Nat) (sAlh tAlh : D)
    (h : knownOk known sId tId sAlh tAlh = true) :
    (known.txId = 0 → sId = 1) ∧
    (known.txId ≠ 0 → (known.txId = sId ∨ known.txId = tId) ∧
      (known.txId = sId → known.txHash = sAlh) ∧ (known.txId = tId → known.txHash = tAlh)) := by
  unfold knownOk at h
  by_cases h0 : known.txId = 0
  · rw [if_pos h0] at h
    exact ⟨fun _ => of_decide_eq_true h, fun x => absurd h0 x⟩
  · rw [if_neg h0] at h
    refine ⟨fun x => absurd x h0, fun _ => ?_⟩
    by_cases h1 : known.txId ≠ sId ∧ known.txId ≠ tId
    · rw [if_pos h1] at h; cases h
    · rw [if_neg h1] at h
      by_cases h2 : known.txId = sId ∧ known.txHash ≠ sAlh
      · rw [if_pos h2] at h; cases h
      · rw [if_neg h2] at h
        by_cases h3 : known.txId = tId ∧ known.txHash ≠ tAlh
        · rw [if_pos h3] at h; cases h
        · refine ⟨?_, fun hs => Classical.byContradiction fun x => h2 ⟨hs, x⟩,
            fun ht => Classical.byContradiction fun x => h3 ⟨ht, x⟩⟩
          by_cases hs : known.txId = sId
          · exact Or.inl hs
          · exact Or.inr (Classical.byContradiction fun x => h1 ⟨hs, x⟩)

/-- The tail after the dual proof. -/
theorem tail_inv (sigOk : Client.State D → Bool) (d : Option (Except V2Err Unit)) (tId : Nat) (tAlh : D)
    (ns : Client.State D)
    (h : (match d with
      | none => none
      | some (.error e) => some (Except.error (Err.dual e))
      | some (.ok _) =>
        if sigOk ⟨tId, tAlh⟩ = true then some (Except.ok (⟨tId, tAlh⟩ : Client.State D))
        else some (Except.error Err.signature)) = some (Except.ok ns)) :
    d = some (.ok ()) ∧ ns = ⟨tId, tAlh⟩ ∧ sigOk ns = true := by
  match d, h with
  | some (.ok u), h =>
    simp only at h
    by_cases hsig : sigOk ⟨tId, tAlh⟩ = true
    · rw [if_pos hsig] at h
      have e : ns = ⟨tId, tAlh⟩ := by
        injection h with h; injection h with h; exact h.symm
      exact ⟨rfl, e, by rw [e]; exact hsig⟩
    · rw [if_neg hsig] at h; injection h with h; cases h

/-- Inversion of an accepting run. -/
theorem verifyDocument_inv (hs : Hs D) (sigOk : Client.State D → Bool) (encKey : Bytes) (dc : DocCheck)
    (known : Client.State D) (p : Proof D) (ns : Client.State D)
    (h : verifyDocument hs sigOk encKey dc known p = some (.ok ns)) :
    ∃ sh th sAlh tAlh xAlh,
      countKey hs encKey p.encDoc p.entries 0 = .ok 1 ∧ dc = .same ∧
      (p.txHdr.version = 0 ∨ p.txHdr.version = 1) ∧
      (HTree.build hs.mhH hs.enc (p.entries.map (entryDigest hs p.txHdr.version))).root = p.txHdr.eh ∧
      p.dual.sourceTxHeader = some sh ∧ p.dual.targetTxHeader = some th ∧ sh.id ≤ th.id ∧
      alh hs sh = some sAlh ∧ alh hs th = some tAlh ∧ alh hs p.txHdr = some xAlh ∧
      bound p.txHdr.id xAlh sh.id th.id sAlh tAlh = true ∧
      knownOk known sh.id th.id sAlh tAlh = true ∧
      verifyDualProofV2 hs (some p.dual) sh.id th.id sAlh tAlh = some (.ok ()) ∧
      ns = ⟨th.id, tAlh⟩ ∧ sigOk ns = true := by
  unfold verifyDocument at h
  split at h
  · cases h
  · rename_i n hn
    by_cases hn1 : n ≠ 1
    · rw [if_pos hn1] at h; cases h
    · rw [if_neg hn1] at h
      have hn1' : n = 1 := Classical.not_not.mp hn1
      subst hn1'
      split at h
      · cases h
      · cases h
      · cases h
      · by_cases hv : p.txHdr.version ≠ 0 ∧ p.txHdr.version ≠ 1
        · rw [if_pos hv] at h; cases h
        · rw [if_neg hv] at h
          by_cases hr : (HTree.build hs.mhH hs.enc (p.entries.map (entryDigest hs p.txHdr.version))).root ≠ p.txHdr.eh
          · rw [if_pos hr] at h; cases h
          · rw [if_neg hr] at h
            split at h
            · rename_i sh th hsh hth
              by_cases hlt : th.id < sh.id
              · rw [if_pos hlt] at h; cases h
              · rw [if_neg hlt] at h
                split at h
                · rename_i sAlh tAlh xAlh hsa hta hxa
                  by_cases hb : ¬ bound p.txHdr.id xAlh sh.id th.id sAlh tAlh = true
                  · rw [if_pos hb] at h; cases h
                  · rw [if_neg hb] at h
                    by_cases hk : ¬ knownOk known sh.id th.id sAlh tAlh = true
                    · rw [if_pos hk] at h; cases h
                    · rw [if_neg hk] at h
                      obtain ⟨h1, h2, h3⟩ := tail_inv sigOk _ _ _ _ h
                      have hver : p.txHdr.version = 0 ∨ p.txHdr.version = 1 := by
                        by_cases h0 : p.txHdr.version = 0
                        · exact Or.inl h0
                        · exact Or.inr (Classical.byContradiction fun x => hv ⟨h0, x⟩)
                      exact ⟨sh, th, sAlh, tAlh, xAlh, hn, rfl, hver, Classical.not_not.mp hr, hsh, hth,
                        Nat.le_of_not_lt hlt, hsa, hta, hxa, Classical.not_not.mp hb, Classical.not_not.mp hk,
                        h1, h2, h3⟩
                · cases h
            · cases h

end ImmuModel.DocVerify.VerifyAux
