/-
C19 (g): `pkg/verification.VerifyDocument` (verification.go) from the point where the encoded key of the
document has been computed — branch by branch, in Go's order:

  1. the loop over `proof.VerifiableTx.Tx.Entries` (an entry with the document's key must carry
     `sha256(EncodedDocument)`; the key must occur exactly once),
  2. decoding of `EncodedDocument` and `proto.Equal(doc, proofDoc)` — NOT modelled: the possible outcomes are an
     input (`DocCheck`; protobuf payloads are outside the Lean fragment); `outOfRange` = the encoded document is
     shorter than one of the two offsets `voff` at which it is sliced (`proof.EncodedDocument[voff:]`): both
     slice expressions are guarded by `len(proof.EncodedDocument) < voff → ErrInvalidProof` (they used to panic;
     finding `C19:proof:panic:encoded-row-cut+hvalue+eh`, repaired),
  3. `EntrySpecDigestFor(Tx.Header.Version)`, the digests of all entries (`IsValueTruncated = true`),
     `htree.BuildWith`, root = `Tx.Header.EH`,
  4. `targetID < sourceID`,
  5. THE HEADER BINDING: the header shipped with the entries must have the id AND the Alh of the source or of the
     target header of the dual proof,
  6. the client's known state (none: the proof must start at tx 1; otherwise it must be one end of the proof, id and Alh),
  7. `store.VerifyDualProofV2`,
  8. the new state = (targetID, targetAlh) and its signature (uninterpreted predicate `sigOk`).

Outer `none` = the Go code panics (`Alh()` of a header with an unsupported version).  A nil header inside the dual
proof is a nil dereference in Go: `none` as well.  Digest-valued protobuf fields (`HValue`, `TxHash`) are taken as
32-byte values (`DigestFromProto` pads/truncates; the harness only sends 32-byte values).
-/
import ImmuModel.Store.Proofs
import ImmuModel.Tx.Entry
import ImmuModel.Merkle.HTree
import ImmuModel.Client.Flow

namespace ImmuModel.DocVerify
open ImmuModel.Tx ImmuModel.Merkle ImmuModel.Store
variable {D : Type}

/-- `schema.TxEntry` as used by `VerifyDocument`: key, `KVMetadataFromProto(..).Bytes()` (empty when nil), `HValue`. -/
structure TxEntry (D : Type) where
  key : Bytes
  md : Bytes
  hValue : D

structure Proof (D : Type) where
  encDoc : Bytes                 -- ProofDocumentResponse.EncodedDocument
  entries : List (TxEntry D)     -- VerifiableTx.Tx.Entries
  txHdr : TxHeader D             -- VerifiableTx.Tx.Header
  dual : DualProofV2 D           -- VerifiableTx.DualProof

/-- Outcome of step 2 (decode `EncodedDocument`, compare with the presented document). -/
inductive DocCheck | same | differs | undecodable | outOfRange
  deriving DecidableEq, Repr

inductive Err | invalidProof | decode | version | dual (e : V2Err) | signature
  deriving DecidableEq, Repr

/-- Step 1: `for _, txEntry := range Entries { if key matches { if sha256(EncodedDocument) != HValue → ErrInvalidProof; keyFound++ } }`. -/
def countKey [DecidableEq D] (hs : Hs D) (encKey encDoc : Bytes) : List (TxEntry D) → Nat → Except Err Nat
  | [], n => .ok n
  | e :: es, n =>
    if e.key = encKey then
      if hs.H encDoc ≠ e.hValue then .error .invalidProof else countKey hs encKey encDoc es (n + 1)
    else countKey hs encKey encDoc es n

/-- `entrySpecDigest(&EntrySpec{Key, Metadata, HashValue, IsValueTruncated: true})`.  `EntrySpecDigest_v0` ignores
`HashValue`/`IsValueTruncated` and hashes `kv.Value`, which is nil here. -/
def entryDigest (hs : Hs D) (version : Nat) (e : TxEntry D) : D :=
  if version = 0 then entryDigestV0 hs e.key (hs.H [])
  else entryDigestV1 hs e.md e.key e.hValue

/-- Step 6. -/
def knownOk [DecidableEq D] (known : Client.State D) (sId tId : Nat) (sAlh tAlh : D) : Bool :=
  if known.txId = 0 then decide (sId = 1)
  else if known.txId ≠ sId ∧ known.txId ≠ tId then false
  else if known.txId = sId ∧ known.txHash ≠ sAlh then false
  else if known.txId = tId ∧ known.txHash ≠ tAlh then false
  else true

/-- Step 5: the three `if`s on `txHdr.ID` / `txHdr.Alh()`. -/
def bound [DecidableEq D] (xId : Nat) (xAlh : D) (sId tId : Nat) (sAlh tAlh : D) : Bool :=
  if xId ≠ sId ∧ xId ≠ tId then false
  else if xId = sId ∧ xAlh ≠ sAlh then false
  else if xId = tId ∧ xAlh ≠ tAlh then false
  else true

def verifyDocument [DecidableEq D] (hs : Hs D) (sigOk : Client.State D → Bool) (encKey : Bytes) (dc : DocCheck)
    (known : Client.State D) (p : Proof D) : Option (Except Err (Client.State D)) :=
  match countKey hs encKey p.encDoc p.entries 0 with
  | .error e => some (.error e)
  | .ok n =>
    if n ≠ 1 then some (.error .invalidProof)
    else match dc with
    | .outOfRange => some (.error .invalidProof)
    | .undecodable => some (.error .decode)
    | .differs => some (.error .invalidProof)
    | .same =>
      if p.txHdr.version ≠ 0 ∧ p.txHdr.version ≠ 1 then some (.error .version)
      else if (HTree.build hs.mhH hs.enc (p.entries.map (entryDigest hs p.txHdr.version))).root ≠ p.txHdr.eh
        then some (.error .invalidProof)
      else match p.dual.sourceTxHeader, p.dual.targetTxHeader with
        | some sh, some th =>
          if th.id < sh.id then some (.error .invalidProof)
          else match alh hs sh, alh hs th, alh hs p.txHdr with
            | some sAlh, some tAlh, some xAlh =>
              if ¬ bound p.txHdr.id xAlh sh.id th.id sAlh tAlh then some (.error .invalidProof)
              else if ¬ knownOk known sh.id th.id sAlh tAlh then some (.error .invalidProof)
              else match verifyDualProofV2 hs (some p.dual) sh.id th.id sAlh tAlh with
                | none => none
                | some (.error e) => some (.error (.dual e))
                | some (.ok _) =>
                  let ns : Client.State D := ⟨th.id, tAlh⟩
                  if sigOk ns then some (.ok ns) else some (.error .signature)
            | _, _, _ => none
        | _, _ => none

end ImmuModel.DocVerify
