/-
Helper lemmas for the C19 property theorems (insertion sort, windows, association lists, the order
comparison).  Core Lean only.
-/
import ImmuModel.Doc.Doc
namespace ImmuModel.Doc.ProofsAux
open ImmuModel ImmuModel.Doc

-- ------------------------------------------------------------------ insertion sort

theorem mem_insertBy {α : Type} (le : α → α → Bool) (x y : α) (l : List α) :
    y ∈ insertBy le x l ↔ y = x ∨ y ∈ l := by
  induction l with
  | nil => simp [insertBy]
  | cons h t ih =>
    unfold insertBy
    split
    · simp
    · simp [ih]; constructor
      · rintro (h1 | h1 | h1) <;> simp [h1]
      · rintro (h1 | h1 | h1) <;> simp [h1]

theorem mem_isort {α : Type} (le : α → α → Bool) (y : α) (l : List α) :
    y ∈ isort le l ↔ y ∈ l := by
  induction l with
  | nil => simp [isort]
  | cons h t ih => simp [isort, mem_insertBy, ih]

theorem length_insertBy {α : Type} (le : α → α → Bool) (x : α) (l : List α) :
    (insertBy le x l).length = l.length + 1 := by
  induction l with
  | nil => simp [insertBy]
  | cons h t ih =>
    unfold insertBy
    split <;> simp [ih]

theorem length_isort {α : Type} (le : α → α → Bool) (l : List α) : (isort le l).length = l.length := by
  induction l with
  | nil => simp [isort]
  | cons h t ih => simp [isort, length_insertBy, ih]

/-- adjacent elements are in order -/
def AdjSorted {α : Type} (le : α → α → Bool) : List α → Prop
  | [] => True
  | [_] => True
  | a :: b :: t => le a b = true ∧ AdjSorted le (b :: t)

theorem adjSorted_tail {α : Type} {le : α → α → Bool} {a : α} {l : List α}
    (h : AdjSorted le (a :: l)) : AdjSorted le l := by
  cases l with
  | nil => trivial
  | cons b t => exact h.2

theorem adjSorted_cons {α : Type} {le : α → α → Bool} {a : α} {l : List α}
    (hl : AdjSorted le l) (hh : ∀ b, l.head? = some b → le a b = true) : AdjSorted le (a :: l) := by
  cases l with
  | nil => trivial
  | cons b t => exact ⟨hh b rfl, hl⟩

theorem head_insertBy {α : Type} (le : α → α → Bool) (x : α) (l : List α) (b : α)
    (h : (insertBy le x l).head? = some b) : b = x ∨ l.head? = some b := by
  cases l with
  | nil => simp [insertBy] at h; exact Or.inl h.symm
  | cons y t =>
    unfold insertBy at h
    split at h
    · simp at h; exact Or.inl h.symm
    · simp at h; right; simp [h]

theorem adjSorted_insertBy {α : Type} (le : α → α → Bool) (x : α) (l : List α)
    (tot : ∀ b ∈ l, le x b = true ∨ le b x = true)
    (hl : AdjSorted le l) : AdjSorted le (insertBy le x l) := by
  induction l with
  | nil => trivial
  | cons y t ih =>
    unfold insertBy
    split
    · rename_i hxy
      exact ⟨hxy, hl⟩
    · rename_i hxy
      have hyx : le y x = true := by
        rcases tot y (by simp) with h | h
        · exact absurd h hxy
        · exact h
      apply adjSorted_cons (ih (fun b hb => tot b (by simp [hb])) (adjSorted_tail hl))
      intro b hb
      rcases head_insertBy le x t b hb with h | h
      · rw [h]; exact hyx
      · cases t with
        | nil => simp at h
        | cons z t' =>
          simp at h
          rw [← h]; exact hl.1

theorem adjSorted_isort {α : Type} (le : α → α → Bool) (l : List α)
    (tot : ∀ a ∈ l, ∀ b ∈ l, le a b = true ∨ le b a = true) : AdjSorted le (isort le l) := by
  induction l with
  | nil => trivial
  | cons x t ih =>
    apply adjSorted_insertBy le x _
    · intro b hb
      rw [mem_isort] at hb
      exact tot x (by simp) b (by simp [hb])
    · exact ih (fun a ha b hb => tot a (by simp [ha]) b (by simp [hb]))

theorem adjSorted_of_true {α : Type} (le : α → α → Bool) (h : ∀ a b, le a b = true) (l : List α) :
    AdjSorted le l := by
  induction l with
  | nil => trivial
  | cons a t ih =>
    cases t with
    | nil => trivial
    | cons b t' => exact ⟨h a b, ih⟩

theorem perm_insertBy {α : Type} (le : α → α → Bool) (x : α) (l : List α) :
    (insertBy le x l).Perm (x :: l) := by
  induction l with
  | nil => exact List.Perm.refl _
  | cons y t ih =>
    unfold insertBy
    split
    · exact List.Perm.refl _
    · exact (List.Perm.cons y ih).trans (List.Perm.swap x y t)

theorem perm_isort {α : Type} (le : α → α → Bool) (l : List α) : (isort le l).Perm l := by
  induction l with
  | nil => exact List.Perm.refl _
  | cons x t ih => exact (perm_insertBy le x _).trans (List.Perm.cons x ih)

theorem sum_ones {α : Type} (l : List α) : (l.map (fun _ => (1 : Nat))).sum = l.length := by
  induction l with
  | nil => rfl
  | cons a t ih => simp [ih]; omega

theorem assoc_setKey_other {β : Type} (k k' : Bytes) (v : β) (l : List (Bytes × β)) (hne : k' ≠ k) :
    assoc k' (setKey k v l) = assoc k' l := by
  have h2 : ¬ k = k' := fun h => hne h.symm
  induction l with
  | nil => simp [setKey, assoc, h2]
  | cons h t ih =>
    obtain ⟨k0, v0⟩ := h
    by_cases hk : k0 = k
    · subst hk
      simp [setKey, assoc, h2]
    · by_cases hk' : k0 = k'
      · subst hk'
        simp [setKey, assoc, hne]
      · simp [setKey, assoc, hk, hk', ih]

theorem adjSorted_drop {α : Type} (le : α → α → Bool) (n : Nat) (l : List α)
    (h : AdjSorted le l) : AdjSorted le (l.drop n) := by
  induction n generalizing l with
  | zero => simpa using h
  | succ n ih =>
    cases l with
    | nil => simpa using h
    | cons a t => simpa using ih t (adjSorted_tail h)

theorem adjSorted_take {α : Type} (le : α → α → Bool) (n : Nat) (l : List α)
    (h : AdjSorted le l) : AdjSorted le (l.take n) := by
  induction n generalizing l with
  | zero => simp [AdjSorted]
  | succ n ih =>
    cases l with
    | nil => simp [AdjSorted]
    | cons a t =>
      cases t with
      | nil => simp [AdjSorted]
      | cons b t' =>
        cases n with
        | zero => simp [AdjSorted]
        | succ m =>
          have := ih (b :: t') h.2
          simp only [List.take_succ_cons] at this ⊢
          exact ⟨h.1, this⟩

theorem adjSorted_window {α : Type} (le : α → α → Bool) (off lim : Nat) (l : List α)
    (h : AdjSorted le l) : AdjSorted le (window off lim l) := by
  unfold window
  split
  · exact adjSorted_drop le off l h
  · exact adjSorted_take le lim _ (adjSorted_drop le off l h)

-- ------------------------------------------------------------------ windows and pages

theorem window_nolimit {α : Type} (l : List α) : window 0 0 l = l := by simp [window]

theorem mem_window {α : Type} {off lim : Nat} {l : List α} {x : α} (h : x ∈ window off lim l) : x ∈ l := by
  unfold window at h
  split at h
  · exact List.mem_of_mem_drop h
  · exact List.mem_of_mem_drop (List.mem_of_mem_take h)

/-- consecutive pages of size `p` concatenate to the first `n*p` elements -/
theorem pages_concat {α : Type} (p : Nat) (hp : 0 < p) (l : List α) (n : Nat) :
    (List.range n).flatMap (fun k => window (k * p) p l) = l.take (n * p) := by
  have hw : ∀ k, window (k * p) p l = (l.drop (k * p)).take p := by
    intro k; unfold window; simp [Nat.ne_of_gt hp]
  induction n with
  | zero => simp
  | succ n ih =>
    rw [List.range_succ, List.flatMap_append, ih]
    simp only [List.flatMap_cons, List.flatMap_nil, List.append_nil, hw]
    rw [Nat.succ_mul, List.take_add]

-- ------------------------------------------------------------------ numbering

theorem numberFrom_fst {α : Type} (n : Nat) (l : List α) :
    (numberFrom n l).map (·.1) = List.range' n l.length := by
  induction l generalizing n with
  | nil => simp [numberFrom]
  | cons x t ih => simp [numberFrom, ih, List.range'_succ]

theorem numberFrom_snd {α : Type} (n : Nat) (l : List α) : (numberFrom n l).map (·.2) = l := by
  induction l generalizing n with
  | nil => simp [numberFrom]
  | cons x t ih => simp [numberFrom, ih]

theorem numberFrom_length {α : Type} (n : Nat) (l : List α) : (numberFrom n l).length = l.length := by
  induction l generalizing n with
  | nil => simp [numberFrom]
  | cons x t ih => simp [numberFrom, ih]

theorem numberFrom_append {α : Type} (n : Nat) (l : List α) (x : α) :
    numberFrom n (l ++ [x]) = numberFrom n l ++ [(n + l.length, x)] := by
  induction l generalizing n with
  | nil => simp [numberFrom]
  | cons y t ih =>
    simp only [List.cons_append, numberFrom, ih, List.length_cons]
    have : n + 1 + t.length = n + (t.length + 1) := by omega
    rw [this]

-- ------------------------------------------------------------------ entries

theorem find_insertEntry (e : DocEntry) (ds : List DocEntry)
    (hfresh : ∀ d ∈ ds, d.id ≠ e.id) :
    (insertEntry e ds).find? (fun d => d.id = e.id) = some e := by
  induction ds with
  | nil => simp [insertEntry]
  | cons d t ih =>
    have hd : d.id ≠ e.id := hfresh d (by simp)
    have ht : ∀ d' ∈ t, d'.id ≠ e.id := fun d' h => hfresh d' (by simp [h])
    unfold insertEntry
    split
    · simp
    · simp [List.find?, hd, ih ht]

theorem find_appendRev_same (id : Bytes) (rv : Rev) (ds : List DocEntry) (d : DocEntry)
    (h : ds.find? (fun x => x.id = id) = some d) :
    (appendRev id rv ds).find? (fun x => x.id = id) = some { d with revs := d.revs ++ [rv] } := by
  induction ds with
  | nil => simp at h
  | cons x t ih =>
    unfold appendRev
    by_cases hx : x.id = id
    · simp [hx] at h
      subst h
      simp [hx]
    · simp [hx, List.find?] at h ⊢
      exact ih h

theorem find_appendRev_other (id id' : Bytes) (rv : Rev) (ds : List DocEntry) (hne : id' ≠ id) :
    (appendRev id rv ds).find? (fun x => x.id = id') = ds.find? (fun x => x.id = id') := by
  induction ds with
  | nil => simp [appendRev]
  | cons x t ih =>
    unfold appendRev
    by_cases hx : x.id = id
    · have hx' : ¬ x.id = id' := by rw [hx]; exact fun h => hne h.symm
      rw [if_pos hx]
      simp only [List.find?_cons]
      have h1 : decide (x.id = id') = false := by simp [hx']
      simp [h1]
    · rw [if_neg hx]
      simp only [List.find?_cons]
      rw [ih]

/-- after `appendRev id rv`, every entry with that id (ids distinct) ends with `rv` -/
theorem appendRev_mem (id : Bytes) (rv : Rev) (ds : List DocEntry)
    (hnd : (ds.map (·.id)).Nodup) (d' : DocEntry) (hm : d' ∈ appendRev id rv ds) (hid : d'.id = id) :
    ∃ d ∈ ds, d.id = id ∧ d' = { d with revs := d.revs ++ [rv] } := by
  induction ds with
  | nil => simp [appendRev] at hm
  | cons x t ih =>
    simp only [List.map_cons, List.nodup_cons] at hnd
    unfold appendRev at hm
    by_cases hx : x.id = id
    · rw [if_pos hx] at hm
      simp only [List.mem_cons] at hm
      rcases hm with h | h
      · exact ⟨x, by simp, hx, h⟩
      · exfalso
        apply hnd.1
        rw [hx, ← hid]
        exact List.mem_map_of_mem (f := (·.id)) h
    · rw [if_neg hx] at hm
      simp only [List.mem_cons] at hm
      rcases hm with h | h
      · rw [h] at hid; exact absurd hid hx
      · obtain ⟨d, hd, h1, h2⟩ := ih hnd.2 h
        exact ⟨d, by simp [hd], h1, h2⟩

theorem appendRev_mem_other (id : Bytes) (rv : Rev) (ds : List DocEntry)
    (d' : DocEntry) (hm : d' ∈ appendRev id rv ds) (hid : d'.id ≠ id) : d' ∈ ds := by
  induction ds with
  | nil => simp [appendRev] at hm
  | cons x t ih =>
    unfold appendRev at hm
    by_cases hx : x.id = id
    · rw [if_pos hx] at hm
      simp only [List.mem_cons] at hm
      rcases hm with h | h
      · rw [h] at hid; exact absurd hx hid
      · simp [h]
    · rw [if_neg hx] at hm
      simp only [List.mem_cons] at hm
      rcases hm with h | h
      · simp [h]
      · simp [ih h]

-- ------------------------------------------------------------------ order comparison

/-- a value that is not a NaN double -/
def NoNaN : SVal → Prop
  | .f64 b => isNaN b = false
  | _ => True

theorem bytesCompare_antisymm (a b : Bytes) : bytesCompare b a = - bytesCompare a b := by
  unfold bytesCompare
  by_cases h1 : lexLt a b = true
  · have h2 : lexLt b a = false := lexLt_asymm h1
    simp [h1, h2]
  · have h1' : lexLt a b = false := by simpa using h1
    by_cases h2 : lexLt b a = true
    · simp [h1', h2]
    · have h2' : lexLt b a = false := by simpa using h2
      simp [h1', h2']

theorem intCompare_antisymm (a b : Int) : intCompare b a = - intCompare a b := by
  unfold intCompare
  by_cases h1 : a = b
  · simp [h1]
  · have h2 : ¬ b = a := fun h => h1 h.symm
    by_cases h3 : a > b
    · have h4 : ¬ b > a := by omega
      simp [h1, h2, h3, h4]
    · have h4 : b > a := by omega
      simp [h1, h2, h3, h4]

theorem boolCompare_antisymm (a b : Bool) : boolCompare b a = - boolCompare a b := by
  cases a <;> cases b <;> simp [boolCompare]

theorem floatCompare_antisymm (a b : Nat) (ha : isNaN a = false) (hb : isNaN b = false) :
    floatCompare b a = - floatCompare a b := by
  unfold floatCompare
  simp only [ha, hb, Bool.or_self, Bool.false_eq_true, if_false]
  by_cases h1 : floatKey a = floatKey b
  · simp [h1]
  · have h2 : ¬ floatKey b = floatKey a := fun h => h1 h.symm
    by_cases h3 : floatKey a > floatKey b
    · have h4 : ¬ floatKey b > floatKey a := by omega
      simp [h1, h2, h3, h4]
    · have h4 : floatKey b > floatKey a := by omega
      simp [h1, h2, h3, h4]

theorem cmpS_antisymm (a b : SVal) (ha : NoNaN a) (hb : NoNaN b) : cmpS b a = - cmpS a b := by
  cases a <;> cases b <;> simp only [cmpS] <;>
    first
    | exact intCompare_antisymm _ _
    | exact boolCompare_antisymm _ _
    | exact bytesCompare_antisymm _ _
    | exact floatCompare_antisymm _ _ ha hb
    | decide

theorem ordCmp_antisymm (order : List (Bytes × Bool)) (a b : Row)
    (ha : ∀ f, NoNaN (rowGet a f)) (hb : ∀ f, NoNaN (rowGet b f)) :
    ordCmp order b a = - ordCmp order a b := by
  induction order with
  | nil => simp [ordCmp]
  | cons o rest ih =>
    obtain ⟨f, desc⟩ := o
    simp only [ordCmp]
    rw [cmpS_antisymm (rowGet a f) (rowGet b f) (ha f) (hb f)]
    cases desc <;> simp <;> split <;> rename_i h <;> simp [h, ih] <;> omega

-- ------------------------------------------------------------------ hits and inserts

/-- A hit carries the id of its entry. -/
theorem liveHit_id (d : DocEntry) (h : Hit) (hh : liveHit d = some h) : h.id = d.id := by
  unfold liveHit at hh
  split at hh
  · simp at hh; rw [← hh]
  · simp at hh

/-- what a successful single insert does to the collection -/
theorem insert_ok (c c' : Coll) (id : Bytes) (doc : JObj) (h : insert c id doc = .ok c') :
    ∃ r, toRow c.fields (withId doc id) = .ok r ∧
      c' = { c with docs := insertEntry { id := id, revs := [{ doc := some (withId doc id), row := r }] } c.docs } := by
  unfold Doc.insert insertBatch at h
  simp only [List.isEmpty_cons, Bool.false_eq_true, if_false, prepareAll, prepareInsert] at h
  by_cases h1 : hasKey doc blobField = true
  · simp [h1] at h
  · by_cases h2 : hasKey doc idField = true
    · simp [h1, h2] at h
    · cases hr : toRow c.fields (withId doc id) with
      | error e => simp [h1, h2, hr] at h
      | ok r =>
        simp only [h1, h2, hr, if_false, Bool.false_eq_true] at h
        split at h
        · simp at h
        · injection h with h
          exact ⟨r, rfl, by rw [← h]; simp [addNew]⟩

end ImmuModel.Doc.ProofsAux
