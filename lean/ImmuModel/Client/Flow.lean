/-
The client-side verification flow of pkg/client/client.go (`verifiedGet`, `VerifiedTxByID`)
as pure functions: which header supplies the entries digest, which side is source/target,
trust-on-first-use when the local state is empty, the checks on the returned entry.
The ECDSA state signature is an uninterpreted predicate `sigOk`.
-/
import ImmuModel.Store.Proofs
import ImmuModel.Tx.Entry

namespace ImmuModel.Client
open ImmuModel.Tx ImmuModel.Merkle ImmuModel.Store
variable {D : Type}

/-- The locally stored `ImmutableState` (tx id + accumulated hash). `txId = 0` = no state yet. -/
structure State (D : Type) where
  txId : Nat
  txHash : D

/-- `Entry.ReferencedBy` (the reference's own tx, the `atTx` it points to, its kv-metadata bytes). -/
structure RefBy where
  tx : Nat
  atTx : Nat
  md : Bytes

/-- The fields of `schema.Entry` used by the flow; `md` = `KVMetadataFromProto(..).Bytes()`. -/
structure EntryResp where
  key : Bytes
  value : Bytes
  md : Bytes
  tx : Nat
  ref : Option RefBy

structure GetResp (D : Type) where
  entry : EntryResp
  version : Nat                 -- VerifiableTx.Tx.Header.Version
  inclusion : HProof D
  dual : DualProof D

inductive Err | unsupportedVersion | corrupted | signature
  deriving DecidableEq, Repr

/-- `database.WrapWithPrefix(key, SetKeyPrefix)`. -/
def wrapKey (k : Bytes) : Bytes := UInt8.ofNat Gen.dbSetKeyPrefix :: k

/-- `database.EncodeEntrySpec`: (key, md, value) as hashed. -/
def entrySpec (reqKey md value : Bytes) : Bytes × Bytes × Bytes :=
  (wrapKey reqKey, md, UInt8.ofNat Gen.dbPlainValuePrefix :: value)

/-- `database.EncodeReference`. -/
def refSpec (reqKey md refdKey : Bytes) (atTx : Nat) : Bytes × Bytes × Bytes :=
  (wrapKey reqKey, md, UInt8.ofNat Gen.dbReferenceValuePrefix :: (beN 8 atTx ++ wrapKey refdKey))

/-- `EntrySpecDigestFor(version)` applied to a spec whose value is present (not truncated). -/
def specDigest (hs : Hs D) (version : Nat) (spec : Bytes × Bytes × Bytes) : Option D :=
  if version = 0 then some (entryDigestV0 hs spec.1 (hs.H spec.2.2))
  else if version = 1 then some (entryDigestV1 hs spec.2.1 spec.1 (hs.H spec.2.2))
  else none

/-- The transaction id the proof is about and the entry spec that is hashed
(`none` = the checks on the returned plain entry added by repair bd31762 fail). -/
def getTarget (reqKey : Bytes) (atTx : Nat) (e : EntryResp) : Option (Nat × (Bytes × Bytes × Bytes)) :=
  match e.ref with
  | none =>
    let vTx := if atTx = 0 then e.tx else atTx
    if e.key ≠ reqKey ∨ e.tx ≠ vTx then none
    else some (vTx, entrySpec reqKey e.md e.value)
  | some r =>
    let vTx := if atTx = 0 then r.tx else atTx
    some (vTx, refSpec reqKey r.md e.key r.atTx)

/-- `verifiedGet`.  Outer `none` = the Go code panics (header with an unsupported version inside
the dual proof). -/
def verifiedGet [DecidableEq D] (hs : Hs D) (sigOk : State D → Bool) (st : State D)
    (reqKey : Bytes) (atTx : Nat) (r : GetResp D) : Option (Except Err (State D)) :=
  if r.version ≠ 0 ∧ r.version ≠ 1 then some (.error .unsupportedVersion)
  else
    match getTarget reqKey atTx r.entry, r.dual.sourceTxHeader, r.dual.targetTxHeader with
    | none, _, _ => some (.error .corrupted)
    | some (vTx, spec), some sh, some th =>
      match specDigest hs r.version spec with
      | none => some (.error .unsupportedVersion)
      | some dg =>
        -- which side is the trusted one
        let sides : Option (D × Nat × D × Nat × D) :=
          if st.txId ≤ vTx then (alh hs th).map (fun a => (th.eh, st.txId, st.txHash, vTx, a))
          else (alh hs sh).map (fun a => (sh.eh, vTx, a, st.txId, st.txHash))
        match sides with
        | none => none
        | some (eh, sId, sAlh, tId, tAlh) =>
          if ¬ hVerifyInclusion hs.mhH hs.enc r.inclusion dg eh then some (.error .corrupted)
          else
            let dualOk : Option Bool :=
              if st.txId > 0 then verifyDualProof hs (some r.dual) sId tId sAlh tAlh else some true
            match dualOk with
            | none => none
            | some false => some (.error .corrupted)
            | some true =>
              let ns : State D := ⟨tId, tAlh⟩
              if sigOk ns then some (.ok ns) else some (.error .signature)
    | _, _, _ => none   -- nil header inside the dual proof: nil dereference in Go

end ImmuModel.Client
