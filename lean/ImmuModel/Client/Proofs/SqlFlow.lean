/-
C01 (client flow, SQL side): what an accepted `verifyRow` establishes, and the meaning of
`verifyRowAgainst` (in particular: a presented NULL is accepted only for a column that has no value
in the proven row).
-/
import ImmuModel.Client.SqlFlow
import ImmuModel.Client.Proofs.Flow

set_option linter.unusedSectionVars false

namespace ImmuModel.Client.SqlFlowAux
open ImmuModel.Tx ImmuModel.Merkle ImmuModel.Store ImmuModel.Sql ImmuModel.Client
variable {D : Type} [DecidableEq D]

/-- `RowErr` twin of `FlowAux.tail_inv`. -/
theorem tail_inv (sigOk : State D → Bool) (incl : Bool) (d : Option Bool) (tId : Nat) (tAlh : D) (ns : State D)
    (h : (if ¬ incl = true then some (Except.error RowErr.corrupted)
      else
        match d with
        | none => none
        | some false => some (Except.error RowErr.corrupted)
        | some true =>
          if sigOk { txId := tId, txHash := tAlh } = true then some (Except.ok { txId := tId, txHash := tAlh })
          else some (Except.error RowErr.signature)) = some (Except.ok ns)) :
    incl = true ∧ d = some true ∧ ns = ⟨tId, tAlh⟩ ∧ sigOk ns = true := by
  cases incl with
  | false => simp at h
  | true =>
    cases d with
    | none => simp at h
    | some b =>
      cases b with
      | false => simp at h
      | true =>
        by_cases hsig : sigOk { txId := tId, txHash := tAlh } = true
        · simp only [hsig, if_true] at h
          have e : ns = ⟨tId, tAlh⟩ := by
            simp at h
            exact h.symm
          exact ⟨rfl, rfl, e, by rw [e]; exact hsig⟩
        · simp [hsig] at h

theorem typedToRowVal_ne_null (v : Val) (rv : RowVal) (h : typedToRowVal v = some rv) : rv ≠ RowVal.null := by
  cases v <;> simp [typedToRowVal] at h <;> subst h <;> simp

theorem lookupId_mem {α : Type} (m : List (Nat × α)) (id : Nat) (d : α) (h : lookupId m id = some d) :
    (id, d) ∈ m := by
  unfold lookupId at h
  cases hf : m.find? (fun p => p.1 == id) with
  | none => rw [hf] at h; simp at h
  | some p =>
    rw [hf] at h
    simp at h
    have hm := List.mem_of_find?_eq_some hf
    have hp := List.find?_some hf
    simp at hp
    obtain ⟨a, b⟩ := p
    simp at hp h
    subst hp; subst h
    exact hm

theorem decodeRowLoop_no_null (colTypes : List (Nat × Option SqlType)) (maxColId : Nat) :
    ∀ (k : Nat) (b : Bytes) (acc dec : List (Nat × RowVal)),
      (∀ p ∈ acc, p.2 ≠ RowVal.null) →
      decodeRowLoop colTypes maxColId k b acc = .ok dec → ∀ p ∈ dec, p.2 ≠ RowVal.null := by
  intro k
  induction k with
  | zero =>
    intro b acc dec hacc h
    simp [decodeRowLoop] at h
    subst h
    exact hacc
  | succ k ih =>
    intro b acc dec hacc h
    rw [decodeRowLoop] at h
    split at h
    · cases h
    · simp only at h
      split at h
      · split at h
        · cases h
        · split at h
          · cases h
          · split at h
            · cases h
            · exact ih _ _ _ hacc h
      · cases h
      · split at h
        · cases h
        · cases h
        · split at h
          · cases h
          · rename_i rv hrv
            refine ih _ _ _ ?_ h
            intro p hp
            rcases List.mem_cons.mp hp with hp | hp
            · subst hp
              exact typedToRowVal_ne_null _ _ hrv
            · exact hacc p (List.mem_filter.mp hp).1

/-- One step of `verifyRowAgainst` on an accepted row. -/
theorem verifyRowAgainst_cons (decoded : List (Nat × RowVal)) (colIds : List (Bytes × Nat))
    (name : Bytes) (val : Option RowVal) (rest : List (Bytes × Option RowVal))
    (h : verifyRowAgainst decoded colIds ((name, val) :: rest) = .ok ()) :
    (∃ id v, lookupName colIds name = some id ∧ val = some v ∧
      ((v = .null ∧ lookupId decoded id = none) ∨
       (∃ d, lookupId decoded id = some d ∧ rowValEqual v d = .ok true))) ∧
    verifyRowAgainst decoded colIds rest = .ok () := by
  rw [verifyRowAgainst] at h
  split at h
  · cases h
  · rename_i id hid
    split at h
    · cases h
    · rename_i v
      split at h
      · rename_i hl
        split at h
        · rename_i hv
          exact ⟨⟨id, v, hid, rfl, Or.inl ⟨hv, hl⟩⟩, h⟩
        · cases h
      · rename_i d hl
        split at h
        · cases h
        · cases h
        · rename_i heq
          exact ⟨⟨id, v, hid, rfl, Or.inr ⟨d, hl, heq⟩⟩, h⟩

end ImmuModel.Client.SqlFlowAux

namespace ImmuModel.Client
open ImmuModel.Tx ImmuModel.Merkle ImmuModel.Store ImmuModel.Sql
variable {D : Type} [DecidableEq D]

/-- `Equal` answers `true` only for the same value, or for two floats that are `==`. -/
theorem rowValEqual_true (v d : RowVal) (h : rowValEqual v d = .ok true) :
    v = d ∨ ∃ a b, v = .f a ∧ d = .f b ∧ floatEq a b = true := by
  cases v <;> cases d <;> simp [rowValEqual] at h ⊢ <;> first | exact h | exact Or.inr h

theorem rowValEqual_null_left (d : RowVal) (h : rowValEqual .null d = .ok true) : d = .null := by
  cases d <;> simp [rowValEqual] at h ⊢

/-- The decoded proven row never contains a NULL value. -/
theorem decodeRow_no_null (enc : Bytes) (colTypes : List (Nat × Option SqlType)) (maxColId : Nat)
    (dec : List (Nat × RowVal)) (h : decodeRow enc colTypes maxColId = .ok dec) :
    ∀ p ∈ dec, p.2 ≠ RowVal.null := by
  unfold decodeRow at h
  split at h
  · cases h
  · exact SqlFlowAux.decodeRowLoop_no_null colTypes maxColId _ _ [] dec (by simp) h

/-- An accepted row: every presented column exists, carries a value, and that value is either NULL with
no value in the proven row, or `Equal` to the proven value. -/
theorem verifyRowAgainst_sound (decoded : List (Nat × RowVal)) (colIds : List (Bytes × Nat))
    (row : List (Bytes × Option RowVal)) (h : verifyRowAgainst decoded colIds row = .ok ()) :
    ∀ p ∈ row, ∃ id v, lookupName colIds p.1 = some id ∧ p.2 = some v ∧
      ((v = .null ∧ lookupId decoded id = none) ∨
       (∃ d, lookupId decoded id = some d ∧ rowValEqual v d = .ok true)) := by
  induction row with
  | nil => intro p hp; cases hp
  | cons x rest ih =>
    obtain ⟨name, val⟩ := x
    obtain ⟨h1, h2⟩ := SqlFlowAux.verifyRowAgainst_cons decoded colIds name val rest h
    intro p hp
    rcases List.mem_cons.mp hp with hp | hp
    · subst hp; exact h1
    · exact ih h2 p hp

/-- A NULL claim is accepted only when the proven row has no value for that column. -/
theorem verifyRowAgainst_null_means_absent (decoded : List (Nat × RowVal)) (colIds : List (Bytes × Nat))
    (row : List (Bytes × Option RowVal)) (hnn : ∀ p ∈ decoded, p.2 ≠ RowVal.null)
    (h : verifyRowAgainst decoded colIds row = .ok ()) :
    ∀ name, (name, some RowVal.null) ∈ row →
      ∃ id, lookupName colIds name = some id ∧ lookupId decoded id = none := by
  intro name hm
  obtain ⟨id, v, hid, hv, hcase⟩ := verifyRowAgainst_sound decoded colIds row h _ hm
  simp only at hid hv
  injection hv with hv
  subst hv
  refine ⟨id, hid, ?_⟩
  rcases hcase with ⟨-, hl⟩ | ⟨d, hl, heq⟩
  · exact hl
  · have hd := rowValEqual_null_left d heq
    subst hd
    exact absurd rfl (hnn _ (SqlFlowAux.lookupId_mem decoded id _ hl))

/-- Converse of `verifyRowAgainst_sound`. -/
theorem verifyRowAgainst_complete (decoded : List (Nat × RowVal)) (colIds : List (Bytes × Nat))
    (row : List (Bytes × Option RowVal))
    (h : ∀ p ∈ row, ∃ id v, lookupName colIds p.1 = some id ∧ p.2 = some v ∧
      ((v = .null ∧ lookupId decoded id = none) ∨
       (∃ d, lookupId decoded id = some d ∧ rowValEqual v d = .ok true))) :
    verifyRowAgainst decoded colIds row = .ok () := by
  induction row with
  | nil => rfl
  | cons x rest ih =>
    obtain ⟨name, val⟩ := x
    have ih' := ih (fun p hp => h p (List.mem_cons_of_mem _ hp))
    obtain ⟨id, v, hid, hv, hcase⟩ := h (name, val) (List.mem_cons_self)
    simp only at hid hv
    subst hv
    rw [verifyRowAgainst]
    simp only [hid]
    rcases hcase with ⟨hv, hl⟩ | ⟨d, hl, heq⟩
    · simp only [hl, hv, if_true]
      exact ih'
    · simp only [hl, heq]
      exact ih'

theorem verifyRowAgainst_iff (decoded : List (Nat × RowVal)) (colIds : List (Bytes × Nat))
    (row : List (Bytes × Option RowVal)) :
    verifyRowAgainst decoded colIds row = .ok () ↔
    ∀ p ∈ row, ∃ id v, lookupName colIds p.1 = some id ∧ p.2 = some v ∧
      ((v = .null ∧ lookupId decoded id = none) ∨
       (∃ d, lookupId decoded id = some d ∧ rowValEqual v d = .ok true)) :=
  ⟨verifyRowAgainst_sound decoded colIds row, verifyRowAgainst_complete decoded colIds row⟩

/-- The variant with the NULL shortcut before the lookup accepts a NULL claim for a column whose committed
value is 1000; `verifyRowAgainst` rejects it. -/
theorem earlyNull_accepts_null_for_committed_value :
    verifyRowAgainstEarlyNull [(1, RowVal.n 1000)] [([99], 1)] [([99], some RowVal.null)] = .ok () ∧
    verifyRowAgainst [(1, RowVal.n 1000)] [([99], 1)] [([99], some RowVal.null)] = .error .corrupted := by
  decide

/-- Inversion of an accepting run of `verifyRow` (no assumption on the local state). -/
theorem verifyRow_inv (hs : Hs D) (sigOk : State D → Bool) (st : State D) (pkCountOk : Bool)
    (pkKey : Except RowErr Bytes) (row : List (Bytes × Option RowVal)) (r : SqlGetResp D) (ns : State D)
    (h : verifyRow hs sigOk st pkCountOk pkKey row r = some (.ok ns)) :
    ∃ key decoded sh th dg eh sId sAlh tId tAlh,
      pkCountOk = true ∧ (r.version = 0 ∨ r.version = 1) ∧
      pkKey = .ok key ∧ decodeRow r.value r.colTypes r.maxColId = .ok decoded ∧
      verifyRowAgainst decoded r.colIds row = .ok () ∧
      r.dual.sourceTxHeader = some sh ∧ r.dual.targetTxHeader = some th ∧
      specDigest hs r.version (key, [], r.value) = some dg ∧
      ((st.txId ≤ r.tx ∧ alh hs th = some tAlh ∧ eh = th.eh ∧ sId = st.txId ∧ sAlh = st.txHash ∧ tId = r.tx) ∨
       (r.tx < st.txId ∧ alh hs sh = some sAlh ∧ eh = sh.eh ∧ sId = r.tx ∧ tId = st.txId ∧ tAlh = st.txHash)) ∧
      hVerifyInclusion hs.mhH hs.enc r.inclusion dg eh = true ∧
      (0 < st.txId → verifyDualProof hs (some r.dual) sId tId sAlh tAlh = some true) ∧
      ns = ⟨tId, tAlh⟩ ∧ sigOk ns = true := by
  unfold verifyRow at h
  split at h
  · cases h
  · rename_i hpk
    split at h
    · cases h
    · rename_i hver
      split at h
      · rename_i sh th hsh hth
        split at h
        · cases h
        · rename_i key
          split at h
          · cases h
          · rename_i decoded hdec
            split at h
            · cases h
            · rename_i hvra
              split at h
              · cases h
              · rename_i dg hdg
                have hpk' : pkCountOk = true := by
                  cases pkCountOk with
                  | true => rfl
                  | false => exact absurd rfl hpk
                have hver' : r.version = 0 ∨ r.version = 1 := by
                  by_cases h0 : r.version = 0
                  · exact Or.inl h0
                  · by_cases h1 : r.version = 1
                    · exact Or.inr h1
                    · exact absurd ⟨h0, h1⟩ hver
                by_cases hle : st.txId ≤ r.tx
                · simp only [hle, if_true] at h
                  cases ha : alh hs th with
                  | none => simp only [ha, Option.map_none] at h; cases h
                  | some a =>
                    simp only [ha, Option.map_some] at h
                    obtain ⟨h1, h2, h3, h4⟩ := SqlFlowAux.tail_inv sigOk _ _ _ _ _ h
                    exact ⟨key, decoded, sh, th, dg, th.eh, st.txId, st.txHash, r.tx, a, hpk', hver', rfl, hdec,
                      hvra, hsh, hth, hdg, Or.inl ⟨hle, ha, rfl, rfl, rfl, rfl⟩, h1,
                      fun hp => FlowAux.ite_some_true _ _ hp h2, h3, h4⟩
                · simp only [hle, if_false] at h
                  cases ha : alh hs sh with
                  | none => simp only [ha, Option.map_none] at h; cases h
                  | some a =>
                    simp only [ha, Option.map_some] at h
                    obtain ⟨h1, h2, h3, h4⟩ := SqlFlowAux.tail_inv sigOk _ _ _ _ _ h
                    exact ⟨key, decoded, sh, th, dg, sh.eh, r.tx, a, st.txId, st.txHash, hpk', hver', rfl, hdec,
                      hvra, hsh, hth, hdg, Or.inr ⟨by omega, ha, rfl, rfl, rfl, rfl⟩, h1,
                      fun hp => FlowAux.ite_some_true _ _ hp h2, h3, h4⟩
      · cases h

/-- What an accepted `verifyRow` establishes (local state present): the row key built from the REQUESTED
primary-key values together with the returned encoded row hashes to a digest whose inclusion under the
entries digest of the header `hdr` of transaction `r.tx` was verified, the dual proof between the old and the
new state was accepted, and the presented row was accepted by `verifyRowAgainst` against the decoding of
exactly that proven encoded row. -/
theorem verifyRow_sound (hs : Hs D) (sigOk : State D → Bool) (st : State D) (pkCountOk : Bool)
    (pkKey : Except RowErr Bytes) (row : List (Bytes × Option RowVal)) (r : SqlGetResp D) (ns : State D)
    (hpos : 0 < st.txId)
    (h : verifyRow hs sigOk st pkCountOk pkKey row r = some (.ok ns)) :
    ∃ key decoded dg hdr provenAlh sId sAlh tId tAlh,
      pkKey = .ok key ∧ decodeRow r.value r.colTypes r.maxColId = .ok decoded ∧
      verifyRowAgainst decoded r.colIds row = .ok () ∧
      specDigest hs r.version (key, [], r.value) = some dg ∧
      ((st.txId ≤ r.tx ∧ r.dual.targetTxHeader = some hdr ∧ sId = st.txId ∧ sAlh = st.txHash ∧ tId = r.tx ∧ tAlh = provenAlh) ∨
       (r.tx < st.txId ∧ r.dual.sourceTxHeader = some hdr ∧ sId = r.tx ∧ sAlh = provenAlh ∧ tId = st.txId ∧ tAlh = st.txHash)) ∧
      alh hs hdr = some provenAlh ∧ hdr.id = r.tx ∧
      hVerifyInclusion hs.mhH hs.enc r.inclusion dg hdr.eh = true ∧
      verifyDualProof hs (some r.dual) sId tId sAlh tAlh = some true ∧
      ns = ⟨tId, tAlh⟩ ∧ sigOk ns = true := by
  obtain ⟨key, decoded, sh, th, dg, eh, sId, sAlh, tId, tAlh, -, -, hkey, hdec, hvra, hsh, hth, hdg, hside, hincl,
      hdual, hns, hsig⟩ := verifyRow_inv hs sigOk st pkCountOk pkKey row r ns h
  have hv := hdual hpos
  have hc := verifyDualProof_chain hs r.dual sh th sId tId sAlh tAlh hsh hth hv
  rcases hside with ⟨hle, ha, heh, e1, e2, e3⟩ | ⟨hlt, ha, heh, e1, e2, e3⟩
  · refine ⟨key, decoded, dg, th, tAlh, sId, sAlh, tId, tAlh, hkey, hdec, hvra, hdg,
      Or.inl ⟨hle, hth, e1, e2, e3, rfl⟩, ha, ?_, ?_, hv, hns, hsig⟩
    · rw [hc.2.2.2.1, e3]
    · rw [← heh]; exact hincl
  · refine ⟨key, decoded, dg, sh, sAlh, sId, sAlh, tId, tAlh, hkey, hdec, hvra, hdg,
      Or.inr ⟨hlt, hsh, e1, rfl, e2, e3⟩, ha, ?_, ?_, hv, hns, hsig⟩
    · rw [hc.2.2.1, e1]
    · rw [← heh]; exact hincl

/-- The row presented to an accepted `verifyRow` IS the proven row, column by column: a presented NULL
means the proven (decoded) row has no value for that column; a presented non-NULL value is the proven
value (up to float `==`). -/
theorem verifyRow_presented_row_is_proven_row (hs : Hs D) (sigOk : State D → Bool) (st : State D)
    (pkCountOk : Bool) (pkKey : Except RowErr Bytes) (row : List (Bytes × Option RowVal)) (r : SqlGetResp D)
    (ns : State D) (hpos : 0 < st.txId)
    (h : verifyRow hs sigOk st pkCountOk pkKey row r = some (.ok ns)) :
    ∃ decoded, decodeRow r.value r.colTypes r.maxColId = .ok decoded ∧
      ∀ p ∈ row, ∃ id v, lookupName r.colIds p.1 = some id ∧ p.2 = some v ∧
        ((v = .null ∧ lookupId decoded id = none) ∨
         (v ≠ .null ∧ ∃ d, lookupId decoded id = some d ∧
           (v = d ∨ ∃ a b, v = .f a ∧ d = .f b ∧ floatEq a b = true))) := by
  obtain ⟨key, decoded, dg, hdr, provenAlh, sId, sAlh, tId, tAlh, -, hdec, hvra, -⟩ :=
    verifyRow_sound hs sigOk st pkCountOk pkKey row r ns hpos h
  refine ⟨decoded, hdec, ?_⟩
  have hnn := decodeRow_no_null _ _ _ _ hdec
  intro p hp
  obtain ⟨id, v, hid, hv, hcase⟩ := verifyRowAgainst_sound decoded r.colIds row hvra p hp
  refine ⟨id, v, hid, hv, ?_⟩
  rcases hcase with hl | ⟨d, hl, heq⟩
  · exact Or.inl hl
  · by_cases hvn : v = .null
    · left
      refine ⟨hvn, ?_⟩
      obtain ⟨name, val⟩ := p
      simp only at hid hv
      subst hv; subst hvn
      obtain ⟨id', hid', hl'⟩ := verifyRowAgainst_null_means_absent decoded r.colIds row hnn hvra name hp
      rw [hid] at hid'
      injection hid' with hid'
      subst hid'
      exact hl'
    · exact Or.inr ⟨hvn, d, hl, rowValEqual_true v d heq⟩

end ImmuModel.Client
