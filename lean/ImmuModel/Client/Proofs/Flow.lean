/-
C01 (client flow): what an accepted `verifiedGet` establishes.
-/
import ImmuModel.Client.Flow
import ImmuModel.Store.Proofs.C01Proofs

set_option linter.unusedSectionVars false

namespace ImmuModel.Client.FlowAux
open ImmuModel.Tx ImmuModel.Merkle ImmuModel.Store ImmuModel.Client
variable {D : Type} [DecidableEq D]

/-- The common tail of `verifiedGet` after the trusted side has been chosen. -/
theorem tail_inv (sigOk : State D → Bool) (incl : Bool) (d : Option Bool) (tId : Nat) (tAlh : D) (ns : State D)
    (h : (if ¬ incl = true then some (Except.error Err.corrupted)
      else
        match d with
        | none => none
        | some false => some (Except.error Err.corrupted)
        | some true =>
          if sigOk { txId := tId, txHash := tAlh } = true then some (Except.ok { txId := tId, txHash := tAlh })
          else some (Except.error Err.signature)) = some (Except.ok ns)) :
    incl = true ∧ d = some true ∧ ns = ⟨tId, tAlh⟩ ∧ sigOk ns = true := by
  cases incl with
  | false => simp at h
  | true =>
    cases d with
    | none => simp at h
    | some b =>
      cases b with
      | false => simp at h
      | true =>
        by_cases hsig : sigOk { txId := tId, txHash := tAlh } = true
        · simp only [hsig, if_true] at h
          have e : ns = ⟨tId, tAlh⟩ := by
            simp at h
            exact h.symm
          exact ⟨rfl, rfl, e, by rw [e]; exact hsig⟩
        · simp [hsig] at h

theorem ite_some_true (c : Prop) [Decidable c] (v : Option Bool) (hc : c)
    (h : (if c then v else some true) = some true) : v = some true := by
  rw [if_pos hc] at h; exact h

/-- Inversion of an accepting run of `verifiedGet` (no assumption on the local state). -/
theorem verifiedGet_inv (hs : Hs D) (sigOk : State D → Bool) (st : State D) (reqKey : Bytes) (atTx : Nat)
    (r : GetResp D) (ns : State D)
    (h : verifiedGet hs sigOk st reqKey atTx r = some (.ok ns)) :
    ∃ vTx spec sh th dg eh sId sAlh tId tAlh,
      getTarget reqKey atTx r.entry = some (vTx, spec) ∧
      r.dual.sourceTxHeader = some sh ∧ r.dual.targetTxHeader = some th ∧
      specDigest hs r.version spec = some dg ∧
      ((st.txId ≤ vTx ∧ alh hs th = some tAlh ∧ eh = th.eh ∧ sId = st.txId ∧ sAlh = st.txHash ∧ tId = vTx) ∨
       (vTx < st.txId ∧ alh hs sh = some sAlh ∧ eh = sh.eh ∧ sId = vTx ∧ tId = st.txId ∧ tAlh = st.txHash)) ∧
      hVerifyInclusion hs.mhH hs.enc r.inclusion dg eh = true ∧
      (0 < st.txId → verifyDualProof hs (some r.dual) sId tId sAlh tAlh = some true) ∧
      ns = ⟨tId, tAlh⟩ ∧ sigOk ns = true := by
  unfold verifiedGet at h
  split at h
  · cases h
  · split at h
    · cases h
    · rename_i vTx spec sh th hgt hsh hth
      split at h
      · cases h
      · rename_i dg hdg
        by_cases hle : st.txId ≤ vTx
        · simp only [hle, if_true] at h
          cases ha : alh hs th with
          | none => simp only [ha, Option.map_none] at h; cases h
          | some a =>
            simp only [ha, Option.map_some] at h
            obtain ⟨h1, h2, h3, h4⟩ := tail_inv sigOk _ _ _ _ _ h
            exact ⟨vTx, spec, sh, th, dg, th.eh, st.txId, st.txHash, vTx, a, hgt, hsh, hth, hdg,
              Or.inl ⟨hle, ha, rfl, rfl, rfl, rfl⟩, h1, fun hp => ite_some_true _ _ hp h2, h3, h4⟩
        · simp only [hle, if_false] at h
          cases ha : alh hs sh with
          | none => simp only [ha, Option.map_none] at h; cases h
          | some a =>
            simp only [ha, Option.map_some] at h
            obtain ⟨h1, h2, h3, h4⟩ := tail_inv sigOk _ _ _ _ _ h
            exact ⟨vTx, spec, sh, th, dg, sh.eh, vTx, a, st.txId, st.txHash, hgt, hsh, hth, hdg,
              Or.inr ⟨by omega, ha, rfl, rfl, rfl, rfl⟩, h1, fun hp => ite_some_true _ _ hp h2, h3, h4⟩
    · cases h

end ImmuModel.Client.FlowAux

namespace ImmuModel.Client.FlowAux
open ImmuModel.Tx ImmuModel.Merkle ImmuModel.Store ImmuModel.Client
variable {D : Type} [DecidableEq D]

/-- `getTarget` on a plain entry. -/
theorem getTarget_plain (reqKey : Bytes) (atTx : Nat) (e : EntryResp) (href : e.ref = none)
    (vTx : Nat) (spec : Bytes × Bytes × Bytes) (h : getTarget reqKey atTx e = some (vTx, spec)) :
    e.key = reqKey ∧ e.tx = vTx ∧ vTx = (if atTx = 0 then e.tx else atTx) ∧
      spec = entrySpec reqKey e.md e.value := by
  unfold getTarget at h
  rw [href] at h
  simp only at h
  by_cases hc : e.key ≠ reqKey ∨ e.tx ≠ (if atTx = 0 then e.tx else atTx)
  · rw [if_pos hc] at h; cases h
  · rw [if_neg hc] at h
    have hk : e.key = reqKey := Classical.byContradiction fun x => hc (Or.inl x)
    have ht : e.tx = (if atTx = 0 then e.tx else atTx) := Classical.byContradiction fun x => hc (Or.inr x)
    injection h with h
    injection h with h1 h2
    exact ⟨hk, by rw [← h1]; exact ht, h1.symm, h2.symm⟩

end ImmuModel.Client.FlowAux

namespace ImmuModel.Client
open ImmuModel.Tx ImmuModel.Merkle ImmuModel.Store
variable {D : Type} [DecidableEq D]

/-- What an accepted `verifiedGet` establishes (local state present, i.e. not trust-on-first-use):
there is a header `hdr` — the one on the proven side of the dual proof — whose accumulated hash and
id are exactly the proven transaction `vTx`, the entry spec derived from the REQUESTED key hashes to a
digest whose inclusion under `hdr.eh` was verified, the dual proof between the old state and the new one
was accepted (so all dual-proof theorems apply), the signature predicate holds for the new state, and the
new state is the proven tx when it is not older than the local state, otherwise the local state is kept. -/
theorem verifiedGet_sound (hs : Hs D) (sigOk : State D → Bool) (st : State D) (reqKey : Bytes) (atTx : Nat)
    (r : GetResp D) (ns : State D) (hpos : 0 < st.txId)
    (h : verifiedGet hs sigOk st reqKey atTx r = some (.ok ns)) :
    ∃ vTx spec dg hdr provenAlh sId sAlh tId tAlh,
      getTarget reqKey atTx r.entry = some (vTx, spec) ∧
      specDigest hs r.version spec = some dg ∧
      ((st.txId ≤ vTx ∧ r.dual.targetTxHeader = some hdr ∧ sId = st.txId ∧ sAlh = st.txHash ∧ tId = vTx ∧ tAlh = provenAlh) ∨
       (vTx < st.txId ∧ r.dual.sourceTxHeader = some hdr ∧ sId = vTx ∧ sAlh = provenAlh ∧ tId = st.txId ∧ tAlh = st.txHash)) ∧
      alh hs hdr = some provenAlh ∧ hdr.id = vTx ∧
      hVerifyInclusion hs.mhH hs.enc r.inclusion dg hdr.eh = true ∧
      verifyDualProof hs (some r.dual) sId tId sAlh tAlh = some true ∧
      ns = ⟨tId, tAlh⟩ ∧ sigOk ns = true := by
  obtain ⟨vTx, spec, sh, th, dg, eh, sId, sAlh, tId, tAlh, hgt, hsh, hth, hdg, hside, hincl, hdual, hns, hsig⟩ :=
    FlowAux.verifiedGet_inv hs sigOk st reqKey atTx r ns h
  have hv := hdual hpos
  have hc := verifyDualProof_chain hs r.dual sh th sId tId sAlh tAlh hsh hth hv
  rcases hside with ⟨hle, ha, heh, e1, e2, e3⟩ | ⟨hlt, ha, heh, e1, e2, e3⟩
  · refine ⟨vTx, spec, dg, th, tAlh, sId, sAlh, tId, tAlh, hgt, hdg,
      Or.inl ⟨hle, hth, e1, e2, e3, rfl⟩, ha, ?_, ?_, hv, hns, hsig⟩
    · rw [hc.2.2.2.1, e3]
    · rw [← heh]; exact hincl
  · refine ⟨vTx, spec, dg, sh, sAlh, sId, sAlh, tId, tAlh, hgt, hdg,
      Or.inr ⟨hlt, hsh, e1, rfl, e2, e3⟩, ha, ?_, ?_, hv, hns, hsig⟩
    · rw [hc.2.2.1, e1]
    · rw [← heh]; exact hincl

/-- For a plain (non-reference) entry the returned key and tx are the requested / proven ones. -/
theorem verifiedGet_plain_entry (hs : Hs D) (sigOk : State D → Bool) (st : State D) (reqKey : Bytes) (atTx : Nat)
    (r : GetResp D) (ns : State D) (href : r.entry.ref = none)
    (h : verifiedGet hs sigOk st reqKey atTx r = some (.ok ns)) :
    r.entry.key = reqKey ∧ (atTx ≠ 0 → r.entry.tx = atTx) ∧
    getTarget reqKey atTx r.entry = some (r.entry.tx, entrySpec reqKey r.entry.md r.entry.value) := by
  obtain ⟨vTx, spec, sh, th, dg, eh, sId, sAlh, tId, tAlh, hgt, -⟩ :=
    FlowAux.verifiedGet_inv hs sigOk st reqKey atTx r ns h
  obtain ⟨hk, ht, hv, hspec⟩ := FlowAux.getTarget_plain reqKey atTx r.entry href vTx spec hgt
  refine ⟨hk, ?_, ?_⟩
  · intro hne
    rw [if_neg hne] at hv
    rw [ht, hv]
  · rw [hgt, ht, hspec]

/-- End-to-end for header version 1: if the proven transaction's entries are `es` (its entries digest is the
reference tree over their digests), an accepted plain read returns (metadata, key, value) that IS one of the
transaction's entries — or a collision of H is exhibited. -/
theorem verifiedGet_entry_in_tx (hs : Hs D) (sigOk : State D → Bool) (st : State D) (reqKey : Bytes) (atTx : Nat)
    (r : GetResp D) (ns : State D) (hpos : 0 < st.txId) (hv1 : r.version = 1) (href : r.entry.ref = none)
    (h : verifiedGet hs sigOk st reqKey atTx r = some (.ok ns))
    (es : List (EntryV1 D)) (hne : es ≠ []) (hfs : ∀ x ∈ es, x.Fits)
    (hfit : r.entry.md.length < 65536 ∧ (wrapKey reqKey).length < 65536)
    (hes : ∀ hdr, (r.dual.targetTxHeader = some hdr ∨ r.dual.sourceTxHeader = some hdr) → hdr.id = r.entry.tx →
        hdr.eh = mth hs.mhH ((es.map (EntryV1.digest hs)).map (fun d => hs.mhH.leafH (hs.enc d)))) :
    (⟨r.entry.md, wrapKey reqKey, hs.H (UInt8.ofNat Gen.dbPlainValuePrefix :: r.entry.value)⟩ : EntryV1 D) ∈ es ∨ HColl hs := by
  obtain ⟨vTx, spec, dg, hdr, provenAlh, sId, sAlh, tId, tAlh, hgt, hdg, hside, -, hid, hincl, -⟩ :=
    verifiedGet_sound hs sigOk st reqKey atTx r ns hpos h
  obtain ⟨-, -, hgt'⟩ := verifiedGet_plain_entry hs sigOk st reqKey atTx r ns href h
  rw [hgt] at hgt'
  injection hgt' with hgt'
  injection hgt' with hvt hspec
  have hhdr : r.dual.targetTxHeader = some hdr ∨ r.dual.sourceTxHeader = some hdr := by
    rcases hside with ⟨-, x, -⟩ | ⟨-, x, -⟩
    · exact Or.inl x
    · exact Or.inr x
  have heh := hes hdr hhdr (by rw [hid, hvt])
  have hdg' : dg = EntryV1.digest hs
      ⟨r.entry.md, wrapKey reqKey, hs.H (UInt8.ofNat Gen.dbPlainValuePrefix :: r.entry.value)⟩ := by
    rw [hspec, hv1] at hdg
    unfold specDigest at hdg
    rw [if_neg (by decide), if_pos rfl] at hdg
    injection hdg with hdg
    rw [← hdg]
    rfl
  rw [heh, hdg'] at hincl
  exact entry_inclusion_sound hs r.inclusion _ es hne hfit hfs hincl

end ImmuModel.Client
