/-
The SQL side of the client verification flow: `VerifyRow` of pkg/client/sql.go with its helpers
`decodeRow` (the proven, sql-encoded row → map column id → value) and `verifyRowAgainst`
(column-by-column comparison of the row under verification with the decoded proven row).
Same conventions as `Client/Flow.lean`: pure functions, same branch order and error classes as the
Go code, outer `none` = the Go code panics, ECDSA signature uninterpreted (`sigOk`).

Not modelled here (taken from the caller): the primary-key encoding
`MapKey(SQLPrefix, RowPrefix, dbID, tableID, PKIndexID, EncodeRawValueAsKey(pkVals…))` — it is an
INPUT of `verifyRow` (`pkKey`, or the error class of the encoding); `EncodeRawValueAsKey` itself is
C15's (`Sql/KeyEnc.lean`).  JSON columns are outside the value-codec model (`RowErr.outOfModel`).
Go maps (`ColTypesById`, `ColIdsByName`, the decoded row) are association lists with unique keys.
Core Lean only.
-/
import ImmuModel.Client.Flow
import ImmuModel.Sql.ValueCodec

namespace ImmuModel.Client
open ImmuModel.Tx ImmuModel.Merkle ImmuModel.Store ImmuModel.Sql ImmuModel.GoInt
variable {D : Type}

/-- The `schema.SQLValue` oneof.  Strings are their UTF-8 bytes, a float is its IEEE-754 bit pattern. -/
inductive RowVal
  | null
  | n (i : Int)
  | s (v : Bytes)
  | b (v : Bool)
  | bs (v : Bytes)
  | ts (t : Int)
  | f (bits : Nat)
  deriving DecidableEq, Repr

inductive RowErr
  | illegalArguments      -- client.ErrIllegalArguments
  | unsupportedVersion    -- store.ErrUnsupportedTxVersion
  | corrupted             -- sql.ErrCorruptedData = store.ErrCorruptedData
  | columnDoesNotExist    -- sql.ErrColumnDoesNotExist
  | notComparable         -- sql.ErrNotComparableValues
  | signature
  | pkEncoding            -- EncodeRawValueAsKey failed (input of the model)
  | outOfModel            -- JSON column
  deriving DecidableEq, Repr

def hexNibble (n : Nat) : UInt8 := if n < 10 then UInt8.ofNat (48 + n) else UInt8.ofNat (87 + n)

def hexAscii (bs : Bytes) : Bytes := bs.flatMap fun x => [hexNibble (x.toNat / 16), hexNibble (x.toNat % 16)]

/-- `uuid.UUID.String()`: xxxxxxxx-xxxx-xxxx-xxxx-xxxxxxxxxxxx (lower-case hex). -/
def uuidString (u : Bytes) : Bytes :=
  hexAscii (u.take 4) ++ [45] ++ hexAscii ((u.drop 4).take 2) ++ [45] ++ hexAscii ((u.drop 6).take 2) ++ [45] ++
  hexAscii ((u.drop 8).take 2) ++ [45] ++ hexAscii ((u.drop 10).take 6)

/-- `schema.TypedValueToRowValue` on the values `sql.DecodeValue` produces.  `none`: a NULL typed
value (never produced by the non-nullable `DecodeValue`; Go would panic on the type assertion). -/
def typedToRowVal : Val → Option RowVal
  | .null => none
  | .int i => some (.n i)
  | .str v => some (.s v)
  | .uuid u => some (.s (uuidString u))
  | .bool v => some (.b v)
  | .blob v => some (.bs v)
  | .ts sec nsec => some (.ts (timeToInt64 sec nsec))
  | .float bits => some (.f bits)

def lookupId {α : Type} (m : List (Nat × α)) (k : Nat) : Option α := (m.find? (fun p => p.1 == k)).map (·.2)

def lookupName (m : List (Bytes × Nat)) (k : Bytes) : Option Nat := (m.find? (fun p => p.1 == k)).map (·.2)

def encIDLen : Nat := Gen.sqlEncIDLen

/-- The loop of `decodeRow` (`k` = remaining `colsCount`).  A column id missing from `ColTypesById`
is a dropped column when `colID ≤ MaxColId` (its value is skipped), otherwise corrupted data; a type
string that is not a SQL type (`some none`) ends in the `ErrCorruptedData` default of `decodeValue`. -/
def decodeRowLoop (colTypes : List (Nat × Option SqlType)) (maxColId : Nat) :
    Nat → Bytes → List (Nat × RowVal) → Except RowErr (List (Nat × RowVal))
  | 0, _, acc => .ok acc
  | k+1, b, acc =>
    if b.length < encIDLen then .error .corrupted
    else
      let colID := beVal (b.take encIDLen)
      let rest := b.drop encIDLen
      match lookupId colTypes colID with
      | none =>
        if colID > maxColId then .error .corrupted
        else if rest.length < encLenLen then .error .corrupted
        else
          let vlen := beVal (rest.take encLenLen)
          if rest.length < encLenLen + vlen then .error .corrupted
          else decodeRowLoop colTypes maxColId k (rest.drop (encLenLen + vlen)) acc
      | some none => .error .corrupted
      | some (some ty) =>
        match decodeValue rest ty false with
        | .error .outOfModel => .error .outOfModel
        | .error _ => .error .corrupted
        | .ok (v, used) =>
          match typedToRowVal v with
          | none => .error .outOfModel
          | some rv => decodeRowLoop colTypes maxColId k (rest.drop used) ((colID, rv) :: acc.filter (fun p => p.1 != colID))

/-- `decodeRow(encodedRow, colTypes, maxColID)`. -/
def decodeRow (enc : Bytes) (colTypes : List (Nat × Option SqlType)) (maxColId : Nat) :
    Except RowErr (List (Nat × RowVal)) :=
  if enc.length < encLenLen then .error .corrupted
  else decodeRowLoop colTypes maxColId (beVal (enc.take encLenLen)) (enc.drop encLenLen) []

/-- `float64 ==`: false when either side is NaN, both zeros are equal. -/
def floatEq (a b : Nat) : Bool := !isNaN a && !isNaN b && decide (floatKey a = floatKey b)

/-- `val.Value.(schema.SqlValue).Equal(decodedVal.Value.(schema.SqlValue))` (pkg/api/schema/row_value.go). -/
def rowValEqual : RowVal → RowVal → Except RowErr Bool
  | .null, .null => .ok true
  | .null, _ => .ok false
  | _, .null => .ok false
  | .n x, .n y => .ok (decide (x = y))
  | .s x, .s y => .ok (decide (x = y))
  | .b x, .b y => .ok (decide (x = y))
  | .bs x, .bs y => .ok (decide (x = y))
  | .ts x, .ts y => .ok (decide (x = y))
  | .f x, .f y => .ok (floatEq x y)
  | _, _ => .error .notComparable

/-- `verifyRowAgainst(row, decodedRow, colIdsByName)`.  A presented value `none` is a nil `*SQLValue`
(or one whose oneof is unset).  A presented NULL is accepted ONLY when the proven row holds no value for
that column (NULLs are not stored in the encoded row). -/
def verifyRowAgainst (decoded : List (Nat × RowVal)) (colIds : List (Bytes × Nat)) :
    List (Bytes × Option RowVal) → Except RowErr Unit
  | [] => .ok ()
  | (name, val) :: rest =>
    match lookupName colIds name with
    | none => .error .columnDoesNotExist
    | some colID =>
      match val with
      | none => .error .corrupted
      | some v =>
        match lookupId decoded colID with
        | none => if v = .null then verifyRowAgainst decoded colIds rest else .error .corrupted
        | some d =>
          match rowValEqual v d with
          | .error e => .error e
          | .ok false => .error .corrupted
          | .ok true => verifyRowAgainst decoded colIds rest

/-- The variant with the "value is NULL ⇒ continue" shortcut BEFORE the lookup in the proven row
(used only by the witness theorem in Props/C01: it accepts a NULL claim whatever was committed). -/
def verifyRowAgainstEarlyNull (decoded : List (Nat × RowVal)) (colIds : List (Bytes × Nat)) :
    List (Bytes × Option RowVal) → Except RowErr Unit
  | [] => .ok ()
  | (name, val) :: rest =>
    match lookupName colIds name with
    | none => .error .columnDoesNotExist
    | some colID =>
      match val with
      | none => .error .corrupted
      | some v =>
        if v = .null then verifyRowAgainstEarlyNull decoded colIds rest
        else
          match lookupId decoded colID with
          | none => .error .corrupted
          | some d =>
            match rowValEqual v d with
            | .error e => .error e
            | .ok false => .error .corrupted
            | .ok true => verifyRowAgainstEarlyNull decoded colIds rest

/-- The fields of `schema.VerifiableSQLEntry` used by `VerifyRow`. -/
structure SqlGetResp (D : Type) where
  value : Bytes                              -- SqlEntry.Value (the sql-encoded row)
  tx : Nat                                   -- SqlEntry.Tx
  version : Nat                              -- VerifiableTx.Tx.Header.Version
  colTypes : List (Nat × Option SqlType)     -- ColTypesById
  maxColId : Nat
  colIds : List (Bytes × Nat)                -- ColIdsByName
  inclusion : HProof D
  dual : DualProof D

/-- `VerifyRow` after the argument checks and the `VerifiableSQLGet` round trip.
`pkCountOk` = `len(PKIDs) ≥ len(pkVals)`; `pkKey` = the row key built from `pkVals` and the
response's ids/types (or the error class of that step).  The entry that is proven is
`EntrySpec{Key: pkKey, Metadata: nil, Value: SqlEntry.Value}`. -/
def verifyRow [DecidableEq D] (hs : Hs D) (sigOk : State D → Bool) (st : State D)
    (pkCountOk : Bool) (pkKey : Except RowErr Bytes) (row : List (Bytes × Option RowVal))
    (r : SqlGetResp D) : Option (Except RowErr (State D)) :=
  if !pkCountOk then some (.error .illegalArguments)
  else if r.version ≠ 0 ∧ r.version ≠ 1 then some (.error .unsupportedVersion)
  else
    match r.dual.sourceTxHeader, r.dual.targetTxHeader with
    | some sh, some th =>
      match pkKey with
      | .error e => some (.error e)
      | .ok key =>
        match decodeRow r.value r.colTypes r.maxColId with
        | .error e => some (.error e)
        | .ok decoded =>
          match verifyRowAgainst decoded r.colIds row with
          | .error e => some (.error e)
          | .ok () =>
            match specDigest hs r.version (key, [], r.value) with
            | none => some (.error .unsupportedVersion)
            | some dg =>
              let sides : Option (D × Nat × D × Nat × D) :=
                if st.txId ≤ r.tx then (alh hs th).map (fun a => (th.eh, st.txId, st.txHash, r.tx, a))
                else (alh hs sh).map (fun a => (sh.eh, r.tx, a, st.txId, st.txHash))
              match sides with
              | none => none
              | some (eh, sId, sAlh, tId, tAlh) =>
                if ¬ hVerifyInclusion hs.mhH hs.enc r.inclusion dg eh then some (.error .corrupted)
                else
                  let dualOk : Option Bool :=
                    if st.txId > 0 then verifyDualProof hs (some r.dual) sId tId sAlh tAlh else some true
                  match dualOk with
                  | none => none
                  | some false => some (.error .corrupted)
                  | some true =>
                    let ns : State D := ⟨tId, tAlh⟩
                    if sigOk ns then some (.ok ns) else some (.error .signature)
    | _, _ => none   -- nil header inside the dual proof: nil dereference in Go

end ImmuModel.Client
