/-
C06 — database-level operations (pkg/database) decomposed into the steps the code performs, on top of
the committed log / index views of `Mvcc/Model.lean`.  Core Lean only.

Mirrored code:
* writes (`Set`, multi-key `Set`, `ExecAll`, `SetReference`, `ZAdd`; all end in `OngoingTx.Commit` /
  `CommitWith` of a write-only tx with optional preconditions):
    `precommit`  — `ImmuStore.precommit` / `preCommitWith` from `s.mutex.Lock()` to the return.  When the tx
                   carries preconditions: `WaitForIndexingUpto(currPrecommittedTxID)` (the indexer only
                   indexes COMMITTED txs, so after the wait committed = indexed = last precommitted),
                   then every `Precondition.Check` on the live index, then `performPrecommit`
                   (id := last + 1).  A failing precondition returns `ErrPreconditionFailed` at once.
    `sync`       — `mayCommit`: the committed frontier jumps to any precommitted id (batch).
    `wdone`      — `commitWHub.WaitFor(id)` ; `WaitForIndexingUpto(id)` ; return.
* reads (`Get`, `GetAll`, `Scan`, `ZScan`, `History`, `Count`):
    `invoke`     — `currTxID := CommittedAlh()`,
    `rdone`      — `WaitForIndexingUpto(currTxID)` then ONE observation of the index at some ts `t` with
                   `currTxID ≤ t ≤ indexed ts` (`Get` reads the live index: t = indexed ts; `GetAll`/`Scan`
                   use `SnapshotMustIncludeTxID(currTxID)` which may hand out an older root ≥ currTxID).
* `GetAll` is NOT one observation in the code: `snap := snapshotSince(...)` (one `rdone` step: the snapshot ts `t` is fixed),
  then `for _, key := range req.Keys { d.get(ctx, EncodeKey(key), <src>, true) }` — one `rdone` step PER KEY, each a
  separate index lookup with arbitrary other steps (commits, indexing) in between — and a last `rdone` step that returns the
  collected entries.  `<src>` is read from the code by the extractor (`Gen.dbGetAllLooksUpInSnapshot`): the snapshot ⇒ the
  lookup reads ts `t`; anything else (the live index `d.st`) ⇒ it reads the current `idx` (`getAllSrc`).
  `Scan` iterates the snapshot's key reader and resolves every row in that snapshot (`Gen.dbScanResolvesInSnapshot`), `Count` /
  `History` read through one read-only tx: they stay one observation of ts `t`.
* `Get` on a key that holds a REFERENCE does TWO observations of the live index (`getAtTx` reads the
  reference, `resolveValue` calls `getAtTx` again for the referenced key): `robs1` then `rdone`.
* preconditions: `preconditions.go` `KeyMustExist` / `KeyMustNotExist` (`idx.Get` = filters IgnoreExpired +
  IgnoreDeleted) and `KeyNotModifiedAfterTx` (`GetWithFilters` without filters: not found ⇒ true).

* index compaction (`indexer.CompactIndex`): `tbtree.Compact` dumps a snapshot of ts `n` without the tree lock, then
  `restartIndex` closes the live index and REOPENS THE DUMP: the index falls back to ts `n` (`compact n`) while the watcher
  hub behind `WaitForIndexingUpto` (`hub`) keeps reporting the higher ts it had reached.

Every step is one atomic action; the lock that makes it so: `precommit` — `s.mutex`; `sync` —
`commitStateRWMutex`; `index` — tbtree `rwmutex` (BulkInsert); `invoke` — `commitStateRWMutex.RLock`;
observations — tbtree `rwmutex.RLock` (one `Get`) or a persistent snapshot root.
The model records the history itself: a global step counter `now` stamps invocations and responses.
-/
import ImmuModel.Mvcc.Model
import ImmuModel.Gen.C06

namespace ImmuModel.Mvcc

inductive Pre where
  | mustExist (k : Bytes)
  | mustNotExist (k : Bytes)
  | notModifiedAfter (k : Bytes) (tx : Nat)
deriving DecidableEq, Repr, Inhabited

def Pre.holds (look : Bytes → Option Ver) : Pre → Bool
  | .mustExist k => (getF look k true).isSome
  | .mustNotExist k => (getF look k true).isNone
  | .notModifiedAfter k t => match look k with
    | none => true
    | some v => v.tx ≤ t

def presHold (log : Log) (t : Nat) (pre : List Pre) : Bool := pre.all (Pre.holds (viewGet log t))

/-- a stored value is a reference when its first byte is `ReferenceValuePrefix` (= 1); it is followed
by `atTx` (8 bytes, big endian; 0 = unbound) and the referenced (store-level) key. -/
def refTarget (v : Ver) : Option (Nat × Bytes) :=
  match v.val with
  | p :: rest =>
    if p.toNat != ImmuModel.Gen.dbReferenceValuePrefix || v.del || rest.length < ImmuModel.Gen.storeTxIDSize then none
    else some ((rest.take 8).foldl (fun a b => a * 256 + b.toNat) 0, rest.drop 8)
  | _ => none

/-- `getAtTx(key, atTx)` on the view of ts `t`: `atTx = 0` ⇒ the view; otherwise the entry of exactly that
transaction (`ReadTxEntry`).  A bound reference can only point to a transaction that existed when it was
written (`SetReference` / `ExecAll` check it), so `atTx ≤ t`; a value claiming otherwise answers not found. -/
def getAt (log : Log) (t : Nat) (atTx : Nat) (k : Bytes) : Option Ver :=
  if atTx == 0 then getF (viewGet log t) k true
  else if t < atTx then none
  else
    match log[atTx - 1]? with
    | some ws => match wsGet ws k with
      | some e => if e.del then none else some ⟨atTx, e.val, e.del⟩
      | none => none
    | none => none

/-- what a read asks for; answers are computed from ONE index view. -/
inductive Query where
  | get (k : Bytes)
  | getAll (ks : List Bytes)
  | scan (spec : ScanSpec) (limit : Nat)
  | history (k : Bytes)
  | count (pfx : Bytes)
deriving DecidableEq, Repr, Inhabited

inductive QRes where
  | entry (k : Bytes) (v : Ver) (refTx : Nat)
  | notFound
  | entries (es : List (Bytes × Ver))
  | num (n : Nat)
deriving DecidableEq, Repr, Inhabited

/-- all versions of `k` among txs `1..t`, oldest first. -/
def historyOf (log : Log) : Nat → Bytes → List Ver
  | 0, _ => []
  | t + 1, k =>
    match log[t]? with
    | some ws =>
      match wsGet ws k with
      | some e => historyOf log t k ++ [⟨t + 1, e.val, e.del⟩]
      | none => historyOf log t k
    | none => historyOf log t k

/-- `getAtTx` + `resolveValue` on ONE view: not found / deleted ⇒ notFound; a reference is followed once
(`MaxKeyResolutionLimit = 1`; the referenced key cannot be a reference: `SetReference` refuses it). -/
def resolveOn (log : Log) (t : Nat) (k : Bytes) : QRes :=
  match getF (viewGet log t) k true with
  | none => .notFound
  | some v =>
    match refTarget v with
    | none => .entry k v 0
    | some (atTx, tk) =>
      match getAt log t atTx tk with
      | none => .notFound
      | some tv => .entry tk tv v.tx

/-- the entries `GetAll(ks)` answers on ONE view: request order, keys that are not found are skipped. -/
def getAllEntries (log : Log) (t : Nat) (ks : List Bytes) : List (Bytes × Ver) :=
  ks.filterMap fun k =>
    match resolveOn log t k with
    | .entry k' v _ => some (k', v)
    | _ => none

def evalQuery (cfg : Cfg) (log : Log) (t : Nat) : Query → QRes
  | .get k => resolveOn log t k
  | .getAll ks => .entries (getAllEntries log t ks)
  | .scan spec limit =>
      .entries ((((rawScan cfg.U cfg.maxKey spec (viewGet log t)).filter (fun r => !r.2.del)).drop spec.offset).take limit)
  | .history k => .entries ((historyOf log t k).map fun v => (k, v))
  | .count pfx => .num ((rawScan cfg.U cfg.maxKey { pfx := pfx } (viewGet log t)).length)

inductive DbOp where
  | write (ws : WriteSet) (pre : List Pre)
  | read (q : Query)
deriving DecidableEq, Repr, Inhabited

/-- what an operation observed / produced. `ver` is the version of the state it is tied to:
an applied write creates version `id`; a rejected write and a read observe version `ver`. -/
inductive Outcome where
  | applied (id : Nat)
  | rejected (ver : Nat)
  | answer (ver : Nat) (r : QRes)
  /-- a `Get` through a reference: reference observed at `ver1`, target at `ver2`. -/
  | answer2 (ver1 ver2 : Nat) (r : QRes)
  /-- a snapshot read refused with ErrIllegalArguments (`SnapshotMustIncludeTs`: ts greater than the index ts). -/
  | failed
deriving DecidableEq, Repr, Inhabited

inductive Phase where
  | idle
  | wInvoked                      -- write invoked, not yet precommitted
  | wPre (id : Nat)               -- precommitted with `id`, waiting for commit + indexing
  | rInvoked (c0 : Nat)           -- read invoked, `c0 = committed` at invocation
  | rHalf (c0 : Nat) (t1 : Nat) (refTx : Nat) (atTx : Nat) (target : Bytes)  -- Get saw a reference at ts t1
  /-- GetAll holds a snapshot of ts `t`; `todo` = keys still to look up, `acc` = entries collected so far. -/
  | rSnap (c0 : Nat) (t : Nat) (todo : List Bytes) (acc : List (Bytes × Ver))
deriving DecidableEq, Repr, Inhabited

structure OpRec where
  client : Nat
  op : DbOp
  inv : Nat
  resp : Nat
  out : Outcome
deriving DecidableEq, Repr, Inhabited

structure Client where
  phase : Phase := .idle
  op : DbOp := .read (.count [])
  inv : Nat := 0
deriving DecidableEq, Repr, Inhabited

structure Db where
  log : Log := []
  committed : Nat := 0
  idx : Nat := 0
  /-- what `WaitForIndexingUpto` goes by: the highest ts the indexer has ever reported (watcher hub). -/
  hub : Nat := 0
  now : Nat := 0
  clients : List Client
  hist : List OpRec := []
  /-- value of `committed` after each step (for the linearization-point statements) -/
  cmt : List Nat := []
deriving Repr, Inhabited

inductive DbStep where
  | invoke (c : Nat) (op : DbOp)
  | precommit (c : Nat)
  | sync (n : Nat)
  | index (n : Nat)
  /-- `CompactIndex` finishing: the index is reopened from a dump of ts `n`. -/
  | compact (n : Nat)
  | wdone (c : Nat)
  /-- first observation of a `Get` (only meaningful for `Query.get`) / the single observation of the others;
  `choice` picks the observed ts in `[c0, idx]`. -/
  | rdone (c : Nat) (choice : Nat)   -- also: each lookup of a `GetAll` in progress and its return
deriving DecidableEq, Repr, Inhabited

/-- the ts one per-key lookup of `GetAll` reads: the snapshot's (`d.get(ctx, key, snap, true)`) or — when the code passes
anything else, e.g. the store itself — that of the live index at the moment of the lookup. -/
def getAllSrc (snapTs liveTs : Nat) : Nat := if ImmuModel.Gen.dbGetAllLooksUpInSnapshot then snapTs else liveTs

/-- one iteration of the loop of `GetAll`: found ⇒ appended, `ErrKeyNotFound` ⇒ skipped. -/
def getAllLookup (log : Log) (ts : Nat) (k : Bytes) (acc : List (Bytes × Ver)) : List (Bytes × Ver) :=
  match resolveOn log ts k with
  | .entry k' v _ => acc ++ [(k', v)]
  | _ => acc

def setClient (d : Db) (c : Nat) (cl : Client) : Db := { d with clients := d.clients.set c cl }

def finish (d : Db) (c : Nat) (cl : Client) (out : Outcome) : Db :=
  { setClient d c { cl with phase := .idle } with
    hist := d.hist ++ [⟨c, cl.op, cl.inv, d.now, out⟩] }

/-- one step WITHOUT the bookkeeping of `now` / `cmt`. -/
def dbStepCore (cfg : Cfg) (d : Db) : DbStep → Db
  | .invoke c op =>
    match d.clients[c]? with
    | some cl =>
      match cl.phase with
      | .idle =>
        match op with
        | .write _ _ => setClient d c { phase := .wInvoked, op := op, inv := d.now }
        | .read _ => setClient d c { phase := .rInvoked d.committed, op := op, inv := d.now }
      | _ => d
    | none => d
  | .precommit c =>
    match d.clients[c]? with
    | some cl =>
      match cl.phase, cl.op with
      | .wInvoked, .write ws pre =>
        let last := d.log.length
        if pre.isEmpty then
          setClient { d with log := d.log ++ [ws] } c { cl with phase := .wPre (last + 1) }
        else
          -- WaitForIndexingUpto(last): returns at once when the hub already reports `last` (the index is then wherever
          -- it is); otherwise everything precommitted gets committed and indexed first
          let d := { d with committed := last, idx := if last ≤ d.hub then d.idx else last, hub := max d.hub last }
          -- the preconditions are checked on the live index
          if presHold d.log d.idx pre then
            setClient { d with log := d.log ++ [ws] } c { cl with phase := .wPre (last + 1) }
          else finish d c cl (.rejected d.idx)
      | _, _ => d
    | none => d
  | .sync n => { d with committed := max d.committed (min n d.log.length) }
  | .index n => { d with idx := max d.idx (min n d.committed), hub := max d.hub (max d.idx (min n d.committed)) }
  | .compact n => { d with idx := min d.idx n }
  | .wdone c =>
    match d.clients[c]? with
    | some cl =>
      match cl.phase with
      | .wPre id => if id ≤ d.committed && id ≤ d.hub then finish d c cl (.applied id) else d
      | _ => d
    | none => d
  | .rdone c choice =>
    match d.clients[c]? with
    | some cl =>
      match cl.phase, cl.op with
      | .rInvoked c0, .read q =>
        if c0 ≤ d.hub then
          match q with
          | .get k =>
            -- live index
            let t := d.idx
            match getF (viewGet d.log t) k true with
            | none => finish d c cl (.answer t .notFound)
            | some v =>
              match refTarget v with
              | none => finish d c cl (.answer t (.entry k v 0))
              | some (atTx, tk) => setClient d c { cl with phase := .rHalf c0 t v.tx atTx tk }
          | .getAll ks =>
            -- `snapshotSince`: SnapshotMustIncludeTxID(c0), refused when the index is behind c0; nothing is read yet
            if c0 ≤ d.idx then setClient d c { cl with phase := .rSnap c0 (clamp c0 d.idx choice) ks [] }
            else finish d c cl .failed
          | q =>
            -- SnapshotMustIncludeTxID(c0): refused when the index is behind c0
            if c0 ≤ d.idx then
              let t := clamp c0 d.idx choice
              finish d c cl (.answer t (evalQuery cfg d.log t q))
            else finish d c cl .failed
        else d
      | .rHalf _ t1 refTx atTx tk, .read _ =>
        let t := d.idx
        match getAt d.log t atTx tk with
        | none => finish d c cl (.answer2 t1 t .notFound)
        | some tv => finish d c cl (.answer2 t1 t (.entry tk tv refTx))
      | .rSnap c0 t todo acc, .read _ =>
        match todo with
        | k :: rest => setClient d c { cl with phase := .rSnap c0 t rest (getAllLookup d.log (getAllSrc t d.idx) k acc) }
        | [] => finish d c cl (.answer t (.entries acc))
      | _, _ => d
    | none => d

def dbStep (cfg : Cfg) (d : Db) (s : DbStep) : Db :=
  let d' := dbStepCore cfg d s
  { d' with now := d.now + 1, cmt := d.cmt ++ [d'.committed] }

def dbRun (cfg : Cfg) (d : Db) (sched : List DbStep) : Db := sched.foldl (dbStep cfg) d

def dbInit (nclients : Nat) : Db := { clients := List.replicate nclients {} }

/-! ## the sequential specification and what "linearizable" means here

Sequential KV object: the state is the list of applied write sets; a write with preconditions is
applied iff they hold on the current state and then returns its position; a read returns `evalQuery`
on the current state.  Because an applied write returns its position, every linearization orders the
writes by id, so linearizability of a history is equivalent to the existence of a version assignment:
each applied write gets its id, every other operation the version it observed, such that
(R1) the results are those of the sequential object at that version and
(R2) real-time order is respected (`a` returned before `b` was invoked ⇒ `a` is ordered before `b`). -/

def Outcome.version : Outcome → Nat
  | .applied id => id
  | .rejected v => v
  | .answer v _ => v
  | .answer2 _ v _ => v
  | .failed => 0

def Outcome.isWrite : Outcome → Bool
  | .applied _ => true
  | _ => false

/-- (R1) for one record, against the final log. -/
def resultOK (cfg : Cfg) (log : Log) (r : OpRec) : Prop :=
  match r.op, r.out with
  | .write ws pre, .applied id => log[id - 1]? = some ws ∧ 1 ≤ id ∧ presHold log (id - 1) pre = true
  | .write _ pre, .rejected v => presHold log v pre = false
  | .read q, .answer v res => res = evalQuery cfg log v q
  | .read q, .answer2 _ v res => res = evalQuery cfg log v q
  | .read _, .failed => True
  | _, _ => False

/-- (R2) for an ordered pair: `a` returned before `b` was invoked. -/
def orderOK (a b : OpRec) : Prop :=
  a.resp < b.inv → a.out ≠ .failed → b.out ≠ .failed →
    match a.out.isWrite, b.out.isWrite with
    | true, true => a.out.version < b.out.version
    | true, false => a.out.version ≤ b.out.version
    | false, true => a.out.version < b.out.version
    | false, false => a.out.version ≤ b.out.version

/-- the explicit linearization point (a step number): an applied write — the step that makes it
committed; a rejected write — its precommit step (= its response); a read that observed ts `t` — its
invocation if `t` was the committed frontier then, else the step that made tx `t` committed. -/
def firstReach (cmt : List Nat) (v : Nat) : Nat := (cmt.findIdx (fun c => v ≤ c))

def linPoint (cmt : List Nat) (r : OpRec) : Nat :=
  match r.out with
  | .applied id => firstReach cmt id
  | .rejected _ => r.resp
  | .answer v _ => max r.inv (firstReach cmt v)
  | .answer2 _ v _ => max r.inv (firstReach cmt v)
  | .failed => r.resp

/-- a history without `Get`s that went through a reference. -/
def noRefGet (h : List OpRec) : Prop := ∀ r ∈ h, ∀ a b q, r.out ≠ .answer2 a b q

/-- a schedule in which no index compaction completes. -/
def noCompact (sched : List DbStep) : Prop := ∀ s ∈ sched, ∀ n, s ≠ .compact n

end ImmuModel.Mvcc
