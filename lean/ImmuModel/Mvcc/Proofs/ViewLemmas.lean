/-
Basic facts about the index views (`viewGet`) shared by the C05 / C06 proofs.
-/
import ImmuModel.Mvcc.Spec

namespace ImmuModel.Mvcc.ViewLemmas
open ImmuModel ImmuModel.Mvcc

/-- a version returned by a view carries its (positive) tx id and the entry of exactly that tx. -/
theorem viewGet_spec (log : Log) : ∀ (t : Nat) (k : Bytes) (v : Ver), viewGet log t k = some v →
    1 ≤ v.tx ∧ v.tx ≤ t ∧ ∃ ws e, log[v.tx - 1]? = some ws ∧ wsGet ws k = some e ∧ v = ⟨v.tx, e.val, e.del⟩ := by
  intro t
  induction t with
  | zero => intro k v h; simp [viewGet] at h
  | succ t ih =>
    intro k v h
    unfold viewGet at h
    split at h
    · rename_i ws hws
      split at h
      · rename_i e he
        injection h with h
        subst h
        exact ⟨by simp, by simp, ws, e, by simpa using hws, he, rfl⟩
      · obtain ⟨h1, h2, h3⟩ := ih k v h
        exact ⟨h1, by omega, h3⟩
    · obtain ⟨h1, h2, h3⟩ := ih k v h
      exact ⟨h1, by omega, h3⟩

theorem viewGet_tx_pos {log : Log} {t : Nat} {k : Bytes} {v : Ver} (h : viewGet log t k = some v) : v.tx ≠ 0 := by
  have := (viewGet_spec log t k v h).1; omega

/-- "same tx id ⇒ same value and metadata". -/
theorem viewGet_det {log : Log} {a b : Nat} {k : Bytes} {v w : Ver}
    (hv : viewGet log a k = some v) (hw : viewGet log b k = some w) (ht : v.tx = w.tx) : v = w := by
  obtain ⟨_, _, ws, e, h1, h2, h3⟩ := viewGet_spec log a k v hv
  obtain ⟨_, _, ws', e', h1', h2', h3'⟩ := viewGet_spec log b k w hw
  rw [ht] at h1
  rw [h1] at h1'
  injection h1' with h1'
  subst h1'
  rw [h2] at h2'
  injection h2' with h2'
  subst h2'
  rw [h3, h3', ht]

/-- keys never disappear from later views. -/
theorem viewGet_mono {log : Log} {k : Bytes} : ∀ {a b : Nat}, a ≤ b → (viewGet log a k).isSome → (viewGet log b k).isSome := by
  intro a b hab
  induction b with
  | zero =>
    have : a = 0 := by omega
    subst this; exact id
  | succ b ih =>
    intro h
    by_cases hEq : a = b + 1
    · subst hEq; exact h
    · have h' := ih (by omega) h
      unfold viewGet
      split
      · split
        · simp
        · exact h'
      · exact h'

/-- a view only depends on the log prefix it covers. -/
theorem viewGet_append (l l' : Log) (k : Bytes) : ∀ t, t ≤ l.length → viewGet (l ++ l') t k = viewGet l t k := by
  intro t
  induction t with
  | zero => intro _; simp [viewGet]
  | succ t ih =>
    intro ht
    have hlt : t < l.length := by omega
    unfold viewGet
    rw [List.getElem?_append_left hlt]
    rw [ih (by omega)]

theorem viewGet_take (l : Log) (n : Nat) (k : Bytes) : ∀ t, t ≤ n → viewGet (l.take n) t k = viewGet l t k := by
  intro t ht
  have h := viewGet_append (l.take n) (l.drop n) k t
  rw [List.take_append_drop] at h
  by_cases hn : n ≤ l.length
  · rw [h (by simp [List.length_take]; omega)]
  · have : l.take n = l := List.take_of_length_le (by omega)
    rw [this]

end ImmuModel.Mvcc.ViewLemmas
