/-
C05 helper proofs: soundness of the MVCC validation (`checkPreconditions`) per read shape.
Helper lemmas live in `ImmuModel.Mvcc.ValidationAux`; the final lemmas in `ImmuModel.Mvcc`.
-/
import ImmuModel.Mvcc.Proofs.ViewLemmas

namespace ImmuModel.Mvcc.ValidationAux
open ImmuModel ImmuModel.Mvcc ImmuModel.Mvcc.ViewLemmas

theorem getF_some {look : Bytes → Option Ver} {k : Bytes} {ign : Bool} {v : Ver}
    (h : getF look k ign = some v) : look k = some v := by
  unfold getF at h
  split at h
  · simp at h
  · rename_i w hw
    split at h
    · simp at h
    · injection h with h; subst h; exact hw

/-! ### simplified validator without the `held` register -/

def vs : List ExpRead → List (Bytes × Nat) → Bool
  | [], _ => true
  | .noMore :: _, c => c.isEmpty
  | .entry k t :: es, c =>
    if t == 0 then
      match c with
      | [] => vs es []
      | (ck, ct) :: c' => if ck == k then vs es c' else vs es ((ck, ct) :: c')
    else
      match c with
      | [] => false
      | (ck, ct) :: c' => ck == k && ct == t && vs es c'

def flat (held : Option (Bytes × Nat)) (c : List (Bytes × Nat)) : List (Bytes × Nat) :=
  match held with
  | some h => h :: c
  | none => c

theorem valSeg_eq_vs (es : List ExpRead) : ∀ (held : Option (Bytes × Nat)) (c : List (Bytes × Nat)),
    valSeg es held c = vs es (flat held c) := by
  induction es with
  | nil => intro held c; simp [valSeg, vs]
  | cons e es ih =>
    intro held c
    cases e with
    | noMore =>
      cases held with
      | some h => simp [valSeg, vs, flat]
      | none => cases c <;> simp [valSeg, vs, flat]
    | entry k t =>
      cases held with
      | some h =>
        obtain ⟨ck, ct⟩ := h
        by_cases h0 : t = 0
        · subst h0
          by_cases hk : ck = k
          · subst hk; simp [valSeg, vs, flat, ih]
          · have hk' : (ck == k) = false := by simpa using hk
            simp [valSeg, vs, flat, ih, hk']
        · have h0' : (t == 0) = false := by simpa using h0
          by_cases hm : (ck == k && ct == t) = true
          · simp only [valSeg, vs, flat, h0', hm, ih]; simp
          · have hm' : (ck == k && ct == t) = false := by simpa using hm
            simp only [valSeg, vs, flat, h0', hm']; simp
      | none =>
        cases c with
        | nil =>
          by_cases h0 : t = 0
          · subst h0; simp [valSeg, vs, flat, ih]
          · have h0' : (t == 0) = false := by simpa using h0
            simp [valSeg, vs, flat, h0']
        | cons x xs =>
          obtain ⟨ck, ct⟩ := x
          by_cases h0 : t = 0
          · subst h0
            by_cases hk : ck = k
            · subst hk; simp [valSeg, vs, flat, ih]
            · have hk' : (ck == k) = false := by simpa using hk
              simp [valSeg, vs, flat, ih, hk']
          · have h0' : (t == 0) = false := by simpa using h0
            by_cases hm : (ck == k && ct == t) = true
            · simp only [valSeg, vs, flat, h0', hm, ih, List.head?, List.tail]; simp
            · have hm' : (ck == k && ct == t) = false := by simpa using hm
              simp only [valSeg, vs, flat, h0', hm', List.head?, List.tail]; simp


/-! ### `readSeg` by recursion on the raw stream -/

def readSegL (ign : Bool) (off : Nat) : List (Bytes × Ver) → Nat → Nat → List (Bytes × Ver) × List ExpRead × Nat
  | _, 0, sk => ([], [], sk)
  | [], _ + 1, sk => ([], [ExpRead.noMore], sk)
  | (k, v) :: rest, n + 1, sk =>
    if ign && v.del then
      let r := readSegL ign off rest (n + 1) sk
      (r.1, ExpRead.entry k v.tx :: r.2.1, r.2.2)
    else if sk < off then
      let r := readSegL ign off rest (n + 1) (sk + 1)
      (r.1, ExpRead.entry k v.tx :: r.2.1, r.2.2)
    else
      let r := readSegL ign off rest n sk
      ((k, v) :: r.1, ExpRead.entry k v.tx :: r.2.1, r.2.2)

theorem readSeg_del (ign : Bool) (off : Nat) (k : Bytes) (v : Ver) (rest : List (Bytes × Ver)) (n sk : Nat)
    (h : (ign && v.del) = true) :
    readSeg ign off (n + 1) ((k, v) :: rest) sk =
      ((readSeg ign off (n + 1) rest sk).1, ExpRead.entry k v.tx :: (readSeg ign off (n + 1) rest sk).2.1,
       (readSeg ign off (n + 1) rest sk).2.2) := by
  simp only [readSeg, readOne, h, ↓reduceIte]
  generalize readOne ign off rest sk = q
  obtain ⟨q1, q2, q3, q4⟩ := q
  cases q1 <;> simp

theorem readSeg_skip (ign : Bool) (off : Nat) (k : Bytes) (v : Ver) (rest : List (Bytes × Ver)) (n sk : Nat)
    (h : (ign && v.del) = false) (hs : sk < off) :
    readSeg ign off (n + 1) ((k, v) :: rest) sk =
      ((readSeg ign off (n + 1) rest (sk + 1)).1, ExpRead.entry k v.tx :: (readSeg ign off (n + 1) rest (sk + 1)).2.1,
       (readSeg ign off (n + 1) rest (sk + 1)).2.2) := by
  simp only [readSeg, readOne, h, hs, ↓reduceIte]
  generalize readOne ign off rest (sk + 1) = q
  obtain ⟨q1, q2, q3, q4⟩ := q
  cases q1 <;> simp

theorem readSeg_take (ign : Bool) (off : Nat) (k : Bytes) (v : Ver) (rest : List (Bytes × Ver)) (n sk : Nat)
    (h : (ign && v.del) = false) (hs : ¬ sk < off) :
    readSeg ign off (n + 1) ((k, v) :: rest) sk =
      ((k, v) :: (readSeg ign off n rest sk).1, ExpRead.entry k v.tx :: (readSeg ign off n rest sk).2.1,
       (readSeg ign off n rest sk).2.2) := by
  simp only [readSeg, readOne, h, hs, ↓reduceIte]
  simp

theorem readSeg_eq_L (ign : Bool) (off : Nat) : ∀ (raw : List (Bytes × Ver)) (n sk : Nat),
    readSeg ign off n raw sk = readSegL ign off raw n sk := by
  intro raw
  induction raw with
  | nil =>
    intro n sk
    cases n with
    | zero => simp [readSeg, readSegL]
    | succ n => simp [readSeg, readSegL, readOne]
  | cons x rest ih =>
    intro n sk
    obtain ⟨k, v⟩ := x
    cases n with
    | zero => simp [readSeg, readSegL]
    | succ n =>
      by_cases hd : (ign && v.del) = true
      · rw [readSeg_del ign off k v rest n sk hd, ih]
        simp only [readSegL, hd, ↓reduceIte]
      · have hd' : (ign && v.del) = false := by simpa using hd
        by_cases hs : sk < off
        · rw [readSeg_skip ign off k v rest n sk hd' hs, ih]
          simp only [readSegL, hd', hs, ↓reduceIte]; simp
        · rw [readSeg_take ign off k v rest n sk hd' hs, ih]
          simp only [readSegL, hd', hs, ↓reduceIte]; simp


/-! ### raw streams as filters of one key list -/

def rawOf (R : Bytes → Bool) (L : List Bytes) (look : Bytes → Option Ver) : List (Bytes × Ver) :=
  L.filterMap fun k => if R k then (look k).map (fun v => (k, v)) else none

theorem rawScan_eq (U : List Bytes) (mk : Nat) (s : ScanSpec) (look : Bytes → Option Ver) :
    rawScan U mk s look = rawOf (inRange mk s) (if s.desc then U.reverse else U) look := rfl

theorem rawOf_nil (R : Bytes → Bool) (look : Bytes → Option Ver) : rawOf R [] look = [] := rfl

theorem rawOf_cons_out (R : Bytes → Bool) (u : Bytes) (L : List Bytes) (look : Bytes → Option Ver)
    (h : R u = false) : rawOf R (u :: L) look = rawOf R L look := by
  simp [rawOf, List.filterMap_cons, h]

theorem rawOf_cons_none (R : Bytes → Bool) (u : Bytes) (L : List Bytes) (look : Bytes → Option Ver)
    (h : look u = none) : rawOf R (u :: L) look = rawOf R L look := by
  simp [rawOf, List.filterMap_cons, h]

theorem rawOf_cons_some (R : Bytes → Bool) (u : Bytes) (L : List Bytes) (look : Bytes → Option Ver) (v : Ver)
    (hr : R u = true) (h : look u = some v) : rawOf R (u :: L) look = (u, v) :: rawOf R L look := by
  simp [rawOf, List.filterMap_cons, h, hr]

theorem mem_rawOf_key {R : Bytes → Bool} {L : List Bytes} {look : Bytes → Option Ver} {k : Bytes} {v : Ver}
    (h : (k, v) ∈ rawOf R L look) : k ∈ L := by
  unfold rawOf at h
  rw [List.mem_filterMap] at h
  obtain ⟨a, ha, hf⟩ := h
  split at hf
  · cases hl : look a with
    | none => simp [hl] at hf
    | some w => simp [hl] at hf; rw [← hf.1]; exact ha
  · simp at hf

theorem readSegL_keys (ign : Bool) (off : Nat) : ∀ (raw : List (Bytes × Ver)) (n sk : Nat) (k : Bytes) (t : Nat),
    ExpRead.entry k t ∈ (readSegL ign off raw n sk).2.1 → ∃ v, (k, v) ∈ raw := by
  intro raw
  induction raw with
  | nil =>
    intro n sk k t h
    cases n <;> simp [readSegL] at h
  | cons x rest ih =>
    intro n sk k t h
    obtain ⟨xk, xv⟩ := x
    cases n with
    | zero => simp [readSegL] at h
    | succ n =>
      simp only [readSegL] at h
      split at h
      · simp only [List.mem_cons] at h
        rcases h with h | h
        · injection h with h1 h2; subst h1; exact ⟨xv, by simp⟩
        · obtain ⟨v, hv⟩ := ih _ _ _ _ h; exact ⟨v, by simp [hv]⟩
      · split at h
        · simp only [List.mem_cons] at h
          rcases h with h | h
          · injection h with h1 h2; subst h1; exact ⟨xv, by simp⟩
          · obtain ⟨v, hv⟩ := ih _ _ _ _ h; exact ⟨v, by simp [hv]⟩
        · simp only [List.mem_cons] at h
          rcases h with h | h
          · injection h with h1 h2; subst h1; exact ⟨xv, by simp⟩
          · obtain ⟨v, hv⟩ := ih _ _ _ _ h; exact ⟨v, by simp [hv]⟩

theorem readSegL_ne_nil (ign : Bool) (off : Nat) (raw : List (Bytes × Ver)) (n sk : Nat) :
    (readSegL ign off raw (n + 1) sk).2.1 ≠ [] := by
  cases raw with
  | nil => simp [readSegL]
  | cons x rest =>
    obtain ⟨k, v⟩ := x
    simp only [readSegL]
    split
    · simp
    · split <;> simp

/-! ### goodTail -/

theorem goodTail_nil : goodTail [] = true := rfl

theorem goodTail_single_own (k : Bytes) : goodTail [ExpRead.entry k 0] = false := rfl

theorem goodTail_cons_ne {e : ExpRead} {es : List ExpRead} (h : es ≠ []) : goodTail (e :: es) = goodTail es := by
  unfold goodTail
  rw [List.getLast?_cons_of_ne_nil h]

theorem goodTail_tail {e : ExpRead} {es : List ExpRead} (h : goodTail (e :: es) = true) : goodTail es = true := by
  by_cases hes : es = []
  · subst hes; rfl
  · rw [goodTail_cons_ne hes] at h; exact h

/-- a committed row the expected reads never mention blocks the validation. -/
theorem vs_block (u : Bytes) (t : Nat) (c' : List (Bytes × Nat)) : ∀ (E : List ExpRead),
    (∀ k t', ExpRead.entry k t' ∈ E → k ≠ u) → E ≠ [] → goodTail E = true → vs E ((u, t) :: c') = false := by
  intro E
  induction E with
  | nil => intro _ h; exact absurd rfl h
  | cons e es ih =>
    intro hk _ hg
    cases e with
    | noMore => simp [vs]
    | entry k t' =>
      have hku : k ≠ u := hk k t' (by simp)
      have hku' : (u == k) = false := by
        simp only [beq_eq_false_iff_ne]; exact fun h => hku h.symm
      by_cases h0 : t' = 0
      · subst h0
        have hes : es ≠ [] := by
          intro he; subst he; simp [goodTail] at hg
        simp only [vs, beq_self_eq_true, ↓reduceIte, hku']
        exact ih (fun k t'' hm => hk k t'' (by simp [hm])) hes (goodTail_tail hg)
      · have h0' : (t' == 0) = false := by simpa using h0
        simp [vs, h0', hku']


/-! ### one raw row consumed by `readSegL` -/

def stepArgs (ign : Bool) (off : Nat) (v : Ver) (n sk : Nat) : Nat × Nat :=
  if ign && v.del then (n + 1, sk) else if sk < off then (n + 1, sk + 1) else (n, sk)

def stepOut (ign : Bool) (off : Nat) (k : Bytes) (v : Ver) (sk : Nat)
    (r : List (Bytes × Ver) × List ExpRead × Nat) : List (Bytes × Ver) × List ExpRead × Nat :=
  if ign && v.del then (r.1, ExpRead.entry k v.tx :: r.2.1, r.2.2)
  else if sk < off then (r.1, ExpRead.entry k v.tx :: r.2.1, r.2.2)
  else ((k, v) :: r.1, ExpRead.entry k v.tx :: r.2.1, r.2.2)

theorem readSegL_cons (ign : Bool) (off : Nat) (k : Bytes) (v : Ver) (rest : List (Bytes × Ver)) (n sk : Nat) :
    readSegL ign off ((k, v) :: rest) (n + 1) sk =
      stepOut ign off k v sk (readSegL ign off rest (stepArgs ign off v n sk).1 (stepArgs ign off v n sk).2) := by
  simp only [readSegL, stepOut, stepArgs]
  split
  · rfl
  · split <;> rfl

theorem stepOut_exp (ign : Bool) (off : Nat) (k : Bytes) (v : Ver) (sk : Nat)
    (r : List (Bytes × Ver) × List ExpRead × Nat) :
    (stepOut ign off k v sk r).2.1 = ExpRead.entry k v.tx :: r.2.1 := by
  simp only [stepOut]
  split
  · rfl
  · split <;> rfl

theorem readSegL_zero (ign : Bool) (off : Nat) (raw : List (Bytes × Ver)) (sk : Nat) :
    readSegL ign off raw 0 sk = ([], [], sk) := by
  cases raw <;> simp [readSegL]

theorem keyTx_cons (k : Bytes) (v : Ver) (rest : List (Bytes × Ver)) :
    keyTx ((k, v) :: rest) = (k, v.tx) :: keyTx rest := rfl

theorem mem_keyTx_key {raw : List (Bytes × Ver)} {k : Bytes} {t : Nat} (h : (k, t) ∈ keyTx raw) :
    ∃ v, (k, v) ∈ raw := by
  unfold keyTx at h
  rw [List.mem_map] at h
  obtain ⟨⟨a, w⟩, ha, hf⟩ := h
  simp at hf
  exact ⟨w, by rw [← hf.1]; exact ha⟩

/-- the head of the committed stream of the remaining keys is not `u` when `u` is not among them. -/
theorem vs_own_skip (u : Bytes) (Esub : List ExpRead) (R : Bytes → Bool) (L : List Bytes) (look : Bytes → Option Ver)
    (hu : u ∉ L) (h : vs (ExpRead.entry u 0 :: Esub) (keyTx (rawOf R L look)) = true) :
    vs Esub (keyTx (rawOf R L look)) = true := by
  cases hc : keyTx (rawOf R L look) with
  | nil => rw [hc] at h; simpa [vs] using h
  | cons x xs =>
    obtain ⟨ck, ct⟩ := x
    rw [hc] at h
    have hmem : (ck, ct) ∈ keyTx (rawOf R L look) := by rw [hc]; simp
    obtain ⟨w, hw⟩ := mem_keyTx_key hmem
    have hck : ck ∈ L := mem_rawOf_key hw
    have hne : (ck == u) = false := by
      simp only [beq_eq_false_iff_ne]; intro he; subst he; exact hu hck
    simpa [vs, hne] using h

theorem vs_committed_absent (u : Bytes) (t : Nat) (ht : t ≠ 0) (Esub : List ExpRead) (R : Bytes → Bool) (L : List Bytes)
    (look : Bytes → Option Ver) (hu : u ∉ L) :
    vs (ExpRead.entry u t :: Esub) (keyTx (rawOf R L look)) = false := by
  have ht' : (t == 0) = false := by simpa using ht
  cases hc : keyTx (rawOf R L look) with
  | nil => simp [vs, ht']
  | cons x xs =>
    obtain ⟨ck, ct⟩ := x
    have hmem : (ck, ct) ∈ keyTx (rawOf R L look) := by rw [hc]; simp
    obtain ⟨w, hw⟩ := mem_keyTx_key hmem
    have hck : ck ∈ L := mem_rawOf_key hw
    have hne : (ck == u) = false := by
      simp only [beq_eq_false_iff_ne]; intro he; subst he; exact hu hck
    simp [vs, ht', hne]

theorem txLook_own {log : Log} {t : Nat} {own : WriteSet} {u : Bytes} {e : Entry} (h : wsGet own u = some e) :
    txLook log t own u = some ⟨0, e.val, e.del⟩ := by
  simp [txLook, h]

theorem txLook_not_own {log : Log} {t : Nat} {own : WriteSet} {u : Bytes} (h : wsGet own u = none) :
    txLook log t own u = viewGet log t u := by
  simp [txLook, h]

/-- **segment soundness**: if the validator accepts the recorded reads of a segment against the committed
stream and the segment does not end on an own write, re-executing the segment on the committed state
overlaid with the same own writes gives the same rows, the same recorded reads and the same `skipped`. -/
theorem seg_main (R : Bytes → Bool) (log : Log) (base last : Nat) (own : WriteSet) (ign : Bool) (off : Nat) :
    ∀ (L : List Bytes), L.Nodup → ∀ (n sk : Nat),
    vs (readSegL ign off (rawOf R L (txLook log base own)) n sk).2.1 (keyTx (rawOf R L (viewGet log last))) = true →
    goodTail (readSegL ign off (rawOf R L (txLook log base own)) n sk).2.1 = true →
    readSegL ign off (rawOf R L (txLook log last own)) n sk
      = readSegL ign off (rawOf R L (txLook log base own)) n sk := by
  intro L
  induction L with
  | nil => intro _ n sk _ _; rfl
  | cons u L' ih =>
    intro hnd n sk hv hg
    have hu : u ∉ L' := (List.nodup_cons.mp hnd).1
    have hnd' : L'.Nodup := (List.nodup_cons.mp hnd).2
    cases n with
    | zero => simp [readSegL_zero]
    | succ n =>
      by_cases hr : R u = true
      · cases ho : wsGet own u with
        | some e =>
          -- a row written by the transaction itself
          have hS := rawOf_cons_some R u L' _ _ hr (txLook_own (log := log) (t := base) ho)
          have hD := rawOf_cons_some R u L' _ _ hr (txLook_own (log := log) (t := last) ho)
          rw [hS] at hv hg ⊢
          rw [hD]
          rw [readSegL_cons] at hv hg ⊢
          rw [readSegL_cons]
          rw [stepOut_exp] at hv hg
          have hv' : vs (readSegL ign off (rawOf R L' (txLook log base own))
              (stepArgs ign off ⟨0, e.val, e.del⟩ n sk).1 (stepArgs ign off ⟨0, e.val, e.del⟩ n sk).2).2.1
              (keyTx (rawOf R L' (viewGet log last))) = true := by
            cases hc : viewGet log last u with
            | none =>
              rw [rawOf_cons_none R u L' _ hc] at hv
              exact vs_own_skip u _ R L' _ hu hv
            | some w =>
              rw [rawOf_cons_some R u L' _ w hr hc, keyTx_cons] at hv
              simpa [vs] using hv
          rw [ih hnd' _ _ hv' (goodTail_tail hg)]
        | none =>
          have hSl : txLook log base own u = viewGet log base u := txLook_not_own ho
          have hDl : txLook log last own u = viewGet log last u := txLook_not_own ho
          cases hb : viewGet log base u with
          | some v =>
            have hvt : v.tx ≠ 0 := viewGet_tx_pos hb
            have hS := rawOf_cons_some R u L' _ v hr (hSl.trans hb)
            rw [hS] at hv hg ⊢
            rw [readSegL_cons] at hv hg ⊢
            rw [stepOut_exp] at hv hg
            cases hc : viewGet log last u with
            | none =>
              rw [rawOf_cons_none R u L' _ hc] at hv
              rw [vs_committed_absent u v.tx hvt _ R L' _ hu] at hv
              exact absurd hv (by simp)
            | some w =>
              rw [rawOf_cons_some R u L' _ w hr hc, keyTx_cons] at hv
              have hvt' : (v.tx == 0) = false := by simpa using hvt
              simp [vs, hvt'] at hv
              have hwv : w = v := viewGet_det hc hb hv.1
              subst hwv
              rw [rawOf_cons_some R u L' _ w hr (hDl.trans hc)]
              rw [readSegL_cons]
              rw [ih hnd' _ _ hv.2 (goodTail_tail hg)]
          | none =>
            have hS := rawOf_cons_none R u L' (txLook log base own) (hSl.trans hb)
            rw [hS] at hv hg ⊢
            cases hc : viewGet log last u with
            | none =>
              rw [rawOf_cons_none R u L' _ hc] at hv
              rw [rawOf_cons_none R u L' (txLook log last own) (hDl.trans hc)]
              exact ih hnd' _ _ hv hg
            | some w =>
              -- a phantom: present now, absent in the snapshot
              rw [rawOf_cons_some R u L' _ w hr hc, keyTx_cons] at hv
              have hne := readSegL_ne_nil ign off (rawOf R L' (txLook log base own)) n sk
              have hkeys : ∀ k t', ExpRead.entry k t' ∈ (readSegL ign off (rawOf R L' (txLook log base own)) (n + 1) sk).2.1 → k ≠ u := by
                intro k t' hm he
                obtain ⟨v, hv'⟩ := readSegL_keys ign off _ _ _ _ _ hm
                subst he
                exact hu (mem_rawOf_key hv')
              rw [vs_block u w.tx _ _ hkeys hne hg] at hv
              exact absurd hv (by simp)
      · have hr' : R u = false := by simpa using hr
        rw [rawOf_cons_out R u L' _ hr'] at hv hg ⊢
        rw [rawOf_cons_out R u L' _ hr'] at hv
        rw [rawOf_cons_out R u L' _ hr']
        exact ih hnd' _ _ hv hg


theorem nodup_rev {α : Type} (l : List α) (h : l.Nodup) : l.reverse.Nodup := by
  unfold List.Nodup at *
  rw [List.pairwise_reverse]
  exact h.imp (fun hab => fun e => hab e.symm)

/-! ### all segments of a reader -/

theorem segs_main (R : Bytes → Bool) (log : Log) (base last : Nat) (own : WriteSet) (ign : Bool) (off : Nat)
    (L : List Bytes) (hL : L.Nodup) : ∀ (segs : List Nat) (sk : Nat),
    (readSegs ign off (rawOf R L (txLook log base own)) segs sk).2.all
        (fun seg => valSeg seg none (keyTx (rawOf R L (viewGet log last)))) = true →
    (readSegs ign off (rawOf R L (txLook log base own)) segs sk).2.all goodTail = true →
    readSegs ign off (rawOf R L (txLook log last own)) segs sk
      = readSegs ign off (rawOf R L (txLook log base own)) segs sk := by
  intro segs
  induction segs with
  | nil => intro sk _ _; rfl
  | cons n ns ih =>
    intro sk hv hg
    simp only [readSegs, List.all_cons, Bool.and_eq_true] at hv hg
    have h1 : readSeg ign off n (rawOf R L (txLook log last own)) sk
        = readSeg ign off n (rawOf R L (txLook log base own)) sk := by
      rw [readSeg_eq_L, readSeg_eq_L]
      apply seg_main R log base last own ign off L hL n sk
      · rw [← readSeg_eq_L]; have := hv.1; rw [valSeg_eq_vs] at this; exact this
      · rw [← readSeg_eq_L]; exact hg.1
    simp only [readSegs]
    rw [h1, ih _ hv.2 hg.2]

/-! ### prefix fingerprints -/

theorem keyTx_tx_ne_zero {R : Bytes → Bool} {log : Log} {t : Nat} : ∀ {L : List Bytes} {k : Bytes} {n : Nat},
    (k, n) ∈ keyTx (rawOf R L (viewGet log t)) → n ≠ 0 := by
  intro L k n h
  unfold keyTx at h
  rw [List.mem_map] at h
  obtain ⟨⟨a, w⟩, ha, hf⟩ := h
  simp at hf
  unfold rawOf at ha
  rw [List.mem_filterMap] at ha
  obtain ⟨b, _, hb⟩ := ha
  split at hb
  · cases hl : viewGet log t b with
    | none => simp [hl] at hb
    | some x =>
      simp [hl] at hb
      have := viewGet_tx_pos hl
      rw [← hf.2, ← hb.2]; exact this
  · simp at hb

theorem fp_main (R : Bytes → Bool) (log : Log) (base last : Nat) (own : WriteSet) :
    ∀ (L : List Bytes), L.Nodup →
    keyTx (rawOf R L (viewGet log last)) = keyTx (rawOf R L (txLook log base own)) →
    rawOf R L (txLook log last own) = rawOf R L (txLook log base own) := by
  intro L
  induction L with
  | nil => intro _ _; rfl
  | cons u L' ih =>
    intro hnd h
    have hu : u ∉ L' := (List.nodup_cons.mp hnd).1
    have hnd' : L'.Nodup := (List.nodup_cons.mp hnd).2
    by_cases hr : R u = true
    · cases ho : wsGet own u with
      | some e =>
        -- an own row would put a tx-0 pair into the recorded fingerprint: impossible for the committed stream
        rw [rawOf_cons_some R u L' _ _ hr (txLook_own (log := log) (t := base) ho), keyTx_cons] at h
        have hm : (u, 0) ∈ keyTx (rawOf R (u :: L') (viewGet log last)) := by rw [h]; simp
        exact absurd rfl (keyTx_tx_ne_zero hm)
      | none =>
        have hSl : txLook log base own u = viewGet log base u := txLook_not_own ho
        have hDl : txLook log last own u = viewGet log last u := txLook_not_own ho
        cases hb : viewGet log base u with
        | some v =>
          rw [rawOf_cons_some R u L' _ v hr (hSl.trans hb), keyTx_cons] at h
          rw [rawOf_cons_some R u L' _ v hr (hSl.trans hb)]
          cases hc : viewGet log last u with
          | none =>
            rw [rawOf_cons_none R u L' _ hc] at h
            have hm : (u, v.tx) ∈ keyTx (rawOf R L' (viewGet log last)) := by rw [h]; simp
            obtain ⟨w, hw⟩ := mem_keyTx_key hm
            exact absurd (mem_rawOf_key hw) hu
          | some w =>
            rw [rawOf_cons_some R u L' _ w hr hc, keyTx_cons] at h
            injection h with h1 h2
            injection h1 with _ h1
            have hwv : w = v := viewGet_det hc hb h1
            subst hwv
            rw [rawOf_cons_some R u L' _ w hr (hDl.trans hc), ih hnd' h2]
        | none =>
          rw [rawOf_cons_none R u L' _ (hSl.trans hb)] at h ⊢
          cases hc : viewGet log last u with
          | none =>
            rw [rawOf_cons_none R u L' _ hc] at h
            rw [rawOf_cons_none R u L' _ (hDl.trans hc)]
            exact ih hnd' h
          | some w =>
            rw [rawOf_cons_some R u L' _ w hr hc, keyTx_cons] at h
            have hm : (u, w.tx) ∈ keyTx (rawOf R L' (txLook log base own)) := by rw [← h]; simp
            obtain ⟨x, hx⟩ := mem_keyTx_key hm
            exact absurd (mem_rawOf_key hx) hu
    · have hr' : R u = false := by simpa using hr
      rw [rawOf_cons_out R u L' _ hr', rawOf_cons_out R u L' _ hr'] at h
      rw [rawOf_cons_out R u L' _ hr', rawOf_cons_out R u L' _ hr']
      exact ih hnd' h


/-! ### prefix gets -/

def filt1 (ign : Bool) (k : Bytes) (v : Ver) : Option (Bytes × Ver) := if ign && v.del then none else some (k, v)

def filtHead (ign : Bool) (l : List (Bytes × Ver)) : Option (Bytes × Ver) :=
  match l with
  | [] => none
  | (k, v) :: _ => filt1 ign k v

def pfxPred (p neq : Bytes) (k : Bytes) : Bool := hasPrefix k p && (neq.isEmpty || lexLt neq k)

theorem pgetF_eq (U : List Bytes) (look : Bytes → Option Ver) (p neq : Bytes) (ign : Bool) :
    pgetF U look p neq ign = filtHead ign (rawOf (pfxPred p neq) U look) := by
  unfold pgetF firstWithPrefix filtHead rawOf pfxPred
  cases h : (List.filterMap (fun k => if (hasPrefix k p && (neq.isEmpty || lexLt neq k)) = true
      then Option.map (fun v => (k, v)) (look k) else none) U) with
  | nil => simp
  | cons x xs => obtain ⟨k, v⟩ := x; simp [filt1]

theorem rawLook_own {log : Log} {t : Nat} {own : WriteSet} {u : Bytes} {e : Entry} (h : wsGet own u = some e) :
    rawLook log t own u = some ⟨0, e.val, false⟩ := by
  simp [rawLook, h]

theorem rawLook_not_own {log : Log} {t : Nat} {own : WriteSet} {u : Bytes} (h : wsGet own u = none) :
    rawLook log t own u = viewGet log t u := by
  simp [rawLook, h]

/-- what `valPGet` computes, on the filtered head of the committed stream. -/
def pgVal (r c : Option (Bytes × Ver)) : Bool :=
  match c with
  | none => (r.map (·.2.tx)).getD 0 == 0
  | some (k, v) => (r.map (·.1)).getD [] == k && (r.map (·.2.tx)).getD 0 == v.tx

theorem filtHead_cons (ign : Bool) (k : Bytes) (v : Ver) (l : List (Bytes × Ver)) :
    filtHead ign ((k, v) :: l) = filt1 ign k v := rfl

theorem filtHead_mem {ign : Bool} {l : List (Bytes × Ver)} {k : Bytes} {v : Ver}
    (h : filtHead ign l = some (k, v)) : (k, v) ∈ l := by
  cases l with
  | nil => simp [filtHead] at h
  | cons x xs =>
    obtain ⟨a, b⟩ := x
    simp only [filtHead, filt1] at h
    split at h
    · simp at h
    · injection h with h; rw [← h]; simp

theorem pget_main (P : Bytes → Bool) (ign : Bool) (log : Log) (base last : Nat) (hb : base ≤ last) (own : WriteSet) :
    ∀ (U : List Bytes), U.Nodup →
    (∀ k v, filtHead ign (rawOf P U (rawLook log base own)) = some (k, v) → v.tx ≠ 0) →
    pgVal (filtHead ign (rawOf P U (rawLook log base own))) (filtHead ign (rawOf P U (viewGet log last))) = true →
    filtHead ign (rawOf P U (rawLook log last own)) = filtHead ign (rawOf P U (rawLook log base own)) := by
  intro U
  induction U with
  | nil => intro _ _ _; rfl
  | cons u U' ih =>
    intro hnd hno hv
    have hu : u ∉ U' := (List.nodup_cons.mp hnd).1
    have hnd' : U'.Nodup := (List.nodup_cons.mp hnd).2
    by_cases hr : P u = true
    · cases ho : wsGet own u with
      | some e =>
        have hS := rawOf_cons_some P u U' _ _ hr (rawLook_own (log := log) (t := base) ho)
        have : filtHead ign (rawOf P (u :: U') (rawLook log base own)) = some (u, ⟨0, e.val, false⟩) := by
          rw [hS]; simp [filtHead, filt1]
        exact absurd rfl (hno _ _ this)
      | none =>
        have hSl : rawLook log base own u = viewGet log base u := rawLook_not_own ho
        have hDl : rawLook log last own u = viewGet log last u := rawLook_not_own ho
        cases hbv : viewGet log base u with
        | some v =>
          have hsome : (viewGet log last u).isSome := viewGet_mono hb (by simp [hbv])
          cases hc : viewGet log last u with
          | none => simp [hc] at hsome
          | some w =>
            rw [rawOf_cons_some P u U' _ v hr (hSl.trans hbv)] at hv hno ⊢
            rw [rawOf_cons_some P u U' _ w hr hc] at hv
            rw [rawOf_cons_some P u U' _ w hr (hDl.trans hc)]
            simp only [filtHead_cons] at hv hno ⊢
            have hwt : w.tx ≠ 0 := viewGet_tx_pos hc
            have hvt : v.tx ≠ 0 := viewGet_tx_pos hbv
            by_cases hd : (ign && v.del) = true
            · -- recorded: not found (first row deleted)
              simp only [filt1, hd, ↓reduceIte] at hv ⊢
              by_cases hdw : (ign && w.del) = true
              · simp [hdw]
              · have hdw' : (ign && w.del) = false := by simpa using hdw
                simp only [hdw', pgVal] at hv
                simp at hv
                exact absurd hv.2.symm hwt
            · have hd' : (ign && v.del) = false := by simpa using hd
              simp only [filt1, hd'] at hv ⊢
              by_cases hdw : (ign && w.del) = true
              · simp only [hdw, ↓reduceIte, pgVal] at hv
                simp at hv
                exact absurd hv hvt
              · have hdw' : (ign && w.del) = false := by simpa using hdw
                simp only [hdw', pgVal] at hv
                simp at hv
                have hwv : w = v := viewGet_det hc hbv hv.symm
                subst hwv
                simp [hd']
        | none =>
          rw [rawOf_cons_none P u U' _ (hSl.trans hbv)] at hv hno ⊢
          cases hc : viewGet log last u with
          | none =>
            rw [rawOf_cons_none P u U' _ hc] at hv
            rw [rawOf_cons_none P u U' _ (hDl.trans hc)]
            exact ih hnd' hno hv
          | some w =>
            rw [rawOf_cons_some P u U' _ w hr hc] at hv
            rw [rawOf_cons_some P u U' _ w hr (hDl.trans hc)]
            have hwt : w.tx ≠ 0 := viewGet_tx_pos hc
            simp only [filtHead_cons] at hv ⊢
            cases hrr : filtHead ign (rawOf P U' (rawLook log base own)) with
            | none =>
              rw [hrr] at hv
              by_cases hdw : (ign && w.del) = true
              · simp [filt1, hdw]
              · have hdw' : (ign && w.del) = false := by simpa using hdw
                simp only [filt1, hdw', pgVal] at hv
                simp at hv
                exact absurd hv.2.symm hwt
            | some kv =>
              obtain ⟨k, v⟩ := kv
              rw [hrr] at hv
              have hvt : v.tx ≠ 0 := hno k v hrr
              by_cases hdw : (ign && w.del) = true
              · simp only [filt1, hdw, ↓reduceIte, pgVal] at hv
                simp at hv
                exact absurd hv hvt
              · have hdw' : (ign && w.del) = false := by simpa using hdw
                simp only [filt1, hdw', pgVal] at hv
                simp at hv
                have hk : k ∈ U' := mem_rawOf_key (filtHead_mem hrr)
                rw [hv.1] at hk
                exact absurd hk hu
    · have hr' : P u = false := by simpa using hr
      rw [rawOf_cons_out P u U' _ hr'] at hv hno ⊢
      rw [rawOf_cons_out P u U' _ hr'] at hv
      rw [rawOf_cons_out P u U' _ hr']
      exact ih hnd' hno hv

end ImmuModel.Mvcc.ValidationAux

namespace ImmuModel.Mvcc
open ImmuModel ImmuModel.Mvcc.ViewLemmas ImmuModel.Mvcc.ValidationAux

/-- point reads: the validator accepts ⇒ the read re-executed on the up-to-date view gives the recorded
answer (same version: same tx ⇒ same value and metadata). -/
theorem validation_sound_get (log : Log) (base last : Nat) (k : Bytes) (ignDel : Bool)
    (hv : valGet (viewGet log last) ⟨k, ignDel, ((getF (viewGet log base) k ignDel).map (·.tx)).getD 0⟩ = true) :
    getF (viewGet log last) k ignDel = getF (viewGet log base) k ignDel := by
  unfold valGet at hv
  cases hb : getF (viewGet log base) k ignDel with
  | none =>
    rw [hb] at hv
    cases hl : getF (viewGet log last) k ignDel with
    | none => rfl
    | some w =>
      rw [hl] at hv
      simp at hv
      exact absurd hv.symm (viewGet_tx_pos (getF_some hl))
  | some v =>
    rw [hb] at hv
    cases hl : getF (viewGet log last) k ignDel with
    | none =>
      rw [hl] at hv
      simp at hv
      exact absurd hv (viewGet_tx_pos (getF_some hb))
    | some w =>
      rw [hl] at hv
      simp at hv
      rw [viewGet_det (getF_some hl) (getF_some hb) hv.symm]

/-- readers: for every segment that does not end on a row written by the transaction itself. -/
theorem validation_sound_scan (cfg : Cfg) (hU : cfg.U.Nodup) (log : Log) (base last : Nat) (own : WriteSet)
    (spec : ScanSpec) (segs : List Nat)
    (hv : valReader cfg (viewGet log last)
        ⟨spec, (readSegs spec.ignDel spec.offset (rawScan cfg.U cfg.maxKey spec (txLook log base own)) segs 0).2⟩ = true)
    (ht : (readSegs spec.ignDel spec.offset (rawScan cfg.U cfg.maxKey spec (txLook log base own)) segs 0).2.all goodTail = true) :
    readSegs spec.ignDel spec.offset (rawScan cfg.U cfg.maxKey spec (txLook log last own)) segs 0
      = readSegs spec.ignDel spec.offset (rawScan cfg.U cfg.maxKey spec (txLook log base own)) segs 0 := by
  have hL : (if spec.desc then cfg.U.reverse else cfg.U).Nodup := by
    split
    · exact nodup_rev _ hU
    · exact hU
  simp only [rawScan_eq] at hv ht ⊢
  exact segs_main _ log base last own _ _ _ hL segs 0 hv ht

/-- prefix fingerprints (sha256 idealised as the list of (key, tx) pairs). -/
theorem validation_sound_fp (cfg : Cfg) (hU : cfg.U.Nodup) (log : Log) (base last : Nat) (own : WriteSet) (spec : ScanSpec)
    (hv : valFP cfg (viewGet log last) ⟨spec, keyTx (rawScan cfg.U cfg.maxKey spec (txLook log base own))⟩ = true) :
    rawScan cfg.U cfg.maxKey spec (txLook log last own) = rawScan cfg.U cfg.maxKey spec (txLook log base own) := by
  have hL : (if spec.desc then cfg.U.reverse else cfg.U).Nodup := by
    split
    · exact nodup_rev _ hU
    · exact hU
  unfold valFP at hv
  simp only [rawScan_eq, beq_iff_eq] at hv ⊢
  exact fp_main _ log base last own _ hL hv


/-- prefix gets that were NOT answered by a write of the transaction itself (those record nothing). -/
theorem validation_sound_pget (U : List Bytes) (hU : U.Nodup) (log : Log) (base last : Nat) (hb : base ≤ last) (own : WriteSet)
    (p neq : Bytes) (ignDel : Bool) (r : Option (Bytes × Ver))
    (hr : pgetF U (rawLook log base own) p neq ignDel = r)
    (hno : ∀ k v, r = some (k, v) → v.tx ≠ 0)
    (hv : valPGet U (viewGet log last) ⟨p, neq, ignDel, (r.map (·.1)).getD [], (r.map (·.2.tx)).getD 0⟩ = true) :
    pgetF U (rawLook log last own) p neq ignDel = r := by
  subst hr
  rw [pgetF_eq] at hno ⊢
  rw [pgetF_eq]
  apply pget_main _ ignDel log base last hb own U hU hno
  unfold valPGet at hv
  rw [pgetF_eq, pgetF_eq] at hv
  unfold pgVal
  cases hc : filtHead ignDel (rawOf (pfxPred p neq) U (viewGet log last)) with
  | none => rw [hc] at hv; simpa using hv
  | some kv => obtain ⟨k, v⟩ := kv; rw [hc] at hv; simpa using hv

end ImmuModel.Mvcc
