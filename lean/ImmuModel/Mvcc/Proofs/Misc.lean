/-
C05 helper proofs: read-your-own-writes, atomic visibility, aborted transactions leave no trace.
-/
import ImmuModel.Mvcc.Proofs.SerialSys

namespace ImmuModel.Mvcc.MiscAux
open ImmuModel ImmuModel.Mvcc ImmuModel.Mvcc.ViewLemmas ImmuModel.Mvcc.ValidationAux ImmuModel.Mvcc.SerialAux

/-! ## own writes -/

theorem wsGet_upsert_self (ws : WriteSet) (e : Entry) : wsGet (upsert ws e) e.key = some e := by
  unfold upsert
  by_cases h : ws.any (fun x => x.key == e.key) = true
  · simp only [h, ↓reduceIte]
    unfold wsGet
    induction ws with
    | nil => simp at h
    | cons x xs ih =>
      simp only [List.map_cons, List.find?_cons]
      by_cases hx : (x.key == e.key) = true
      · simp [hx]
      · have hx' : (x.key == e.key) = false := by simpa using hx
        simp only [hx', Bool.false_eq_true, ↓reduceIte]
        simp only [List.any_cons, hx', Bool.false_or] at h
        exact ih h
  · have h' : ws.any (fun x => x.key == e.key) = false := by simpa using h
    simp only [h', Bool.false_eq_true, ↓reduceIte]
    unfold wsGet
    rw [List.find?_append]
    have : List.find? (fun x => x.key == e.key) ws = none := by
      rw [List.find?_eq_none]
      intro x hx
      rw [List.any_eq_false] at h'
      exact h' x hx
    simp [this]

theorem ryow_get (log : Log) (tx : TxSt) (pfx : Bytes) (nb : Nat) (k : Bytes) (ign : Bool) (e : Entry)
    (h : wsGet tx.own k = some e) :
    (execGet log tx pfx nb k ign).2 = Res.found k ⟨0, e.val, e.del⟩ ∧ (execGet log tx pfx nb k ign).1.rs = tx.rs := by
  unfold execGet
  simp [h]

theorem ryow_scan (cfg : Cfg) (log : Log) (base : Nat) (own : WriteSet) (spec : ScanSpec) (k : Bytes) (e : Entry)
    (hk : k ∈ cfg.U) (hr : inRange cfg.maxKey spec k = true) (h : wsGet own k = some e) :
    (k, (⟨0, e.val, e.del⟩ : Ver)) ∈ rawScan cfg.U cfg.maxKey spec (txLook log base own) := by
  unfold rawScan
  rw [List.mem_filterMap]
  refine ⟨k, ?_, ?_⟩
  · split
    · exact List.mem_reverse.mpr hk
    · exact hk
  · simp [hr, txLook, h]

/-! ## atomic visibility of a committed transaction -/

theorem wsGet_isSome_of_mem {ws : WriteSet} {e : Entry} (h : e ∈ ws) : (wsGet ws e.key).isSome = true := by
  unfold wsGet
  rw [List.find?_isSome]
  exact ⟨e, h, by simp⟩

theorem visible_from (log : Log) (n : Nat) (ws : WriteSet) (hn : 1 ≤ n) (h : log[n - 1]? = some ws) (e : Entry) (he : e ∈ ws) :
    ∀ base, n ≤ base → ∃ v, viewGet log base e.key = some v ∧ n ≤ v.tx := by
  intro base
  induction base with
  | zero => intro hb; omega
  | succ b ih =>
    intro hb
    by_cases hEq : n = b + 1
    · subst hEq
      simp only [Nat.add_sub_cancel] at h
      have := wsGet_isSome_of_mem he
      cases hw : wsGet ws e.key with
      | none => rw [hw] at this; simp at this
      | some e' =>
        refine ⟨⟨b + 1, e'.val, e'.del⟩, ?_, Nat.le_refl _⟩
        simp [viewGet, h, hw]
    · obtain ⟨v, hv, hvn⟩ := ih (by omega)
      cases hl : log[b]? with
      | none => exact ⟨v, by simp [viewGet, hl, hv], hvn⟩
      | some ws' =>
        cases hw : wsGet ws' e.key with
        | none => exact ⟨v, by simp [viewGet, hl, hw, hv], hvn⟩
        | some e' => exact ⟨⟨b + 1, e'.val, e'.del⟩, by simp [viewGet, hl, hw], by simp; omega⟩

/-! ## aborted transactions leave no trace -/

theorem abort_step (cfg : Cfg) (s : Sys) (i c : Nat) (tx' : TxSt)
    (h : (step cfg s (.op i c)).txs[i]? = some tx')
    (hs : tx'.status = .conflict ∨ tx'.status = .cancelled ∨ tx'.status = .noEntries) :
    (step cfg s (.op i c)).log = s.log ∧ ∀ j, j ≠ i → (step cfg s (.op i c)).txs[j]? = s.txs[j]? := by
  cases htx : s.txs[i]? with
  | none =>
    have : step cfg s (.op i c) = s := by simp [step, htx]
    rw [this]; exact ⟨rfl, fun _ _ => rfl⟩
  | some tx =>
    by_cases hact : tx.status = .active
    · cases hprog : tx.prog with
      | nil =>
        have : step cfg s (.op i c) = s := by simp [step, htx, hact, hprog]
        rw [this]; exact ⟨rfl, fun _ _ => rfl⟩
      | cons op rest =>
        by_cases hc : op = .commit
        · subst hc
          have hstep : step cfg s (.op i c) = commitTx cfg s i { tx with prog := rest } := by
            simp [step, htx, hact, hprog]
          rw [hstep] at h ⊢
          unfold commitTx at h ⊢
          by_cases hown : tx.own.isEmpty = true
          · simp only [hown, ↓reduceIte]
            exact ⟨rfl, fun j hj => setTx_get_ne s i j _ hj⟩
          · have hown' : tx.own.isEmpty = false := by simpa using hown
            simp only [hown', Bool.false_eq_true, ↓reduceIte] at h ⊢
            split at h
            · -- committed: contradicts the status
              rw [setTx_get_self _ i tx _ (by exact htx)] at h
              injection h with h
              subst h
              simp [push] at hs
            · rename_i hchk
              rw [if_neg hchk]
              exact ⟨rfl, fun j hj => setTx_get_ne _ i j _ hj⟩
        · by_cases hcc : op = .cancel
          · subst hcc
            have hstep : step cfg s (.op i c) =
                setTx s i (push { { tx with prog := rest } with status := .cancelled, prog := [] } .cancelled) := by
              simp [step, htx, hact, hprog]
            rw [hstep]
            exact ⟨rfl, fun j hj => setTx_get_ne s i j _ hj⟩
          · -- an ordinary call keeps the transaction active
            have hne : notEnd op := ⟨hc, hcc⟩
            cases hk : op.snapKey with
            | none => exact absurd hk (notEnd_snapKey hne)
            | some key =>
              exfalso
              have hstatus : tx'.status = .active := by
                unfold step at h
                simp only [htx, hact, hprog] at h
                cases op with
                | commit => exact absurd rfl hc
                | cancel => exact absurd rfl hcc
                | _ =>
                  simp only [hk] at h
                  split at h
                  · rw [setTx_get_self s i tx _ htx] at h
                    injection h with h; subst h; simp [push, hact]
                  · split at h
                    · rw [setTx_get_self s i tx _ htx] at h
                      injection h with h; subst h
                      simp only [execPush, push]
                      rw [(execOp_frame cfg s.log _ _ 0 _).2]
                    · rw [setTx_get_self _ i tx _ (by exact htx)] at h
                      injection h with h; subst h
                      simp only [execPush, push]
                      rw [(execOp_frame cfg s.log _ _ _ _).2]
              rw [hstatus] at hs
              simp at hs
    · rw [step_inactive cfg s i c tx htx hact]; exact ⟨rfl, fun _ _ => rfl⟩


/-- every write set in the log is justified: the `own` of a transaction that is committed with that id, or `P`. -/
@[reducible] def Just (s : Sys) (P : WriteSet → Prop) : Prop :=
  ∀ n ws, s.log[n]? = some ws →
    (∃ (j : Nat) (tx : TxSt), s.txs[j]? = some tx ∧ tx.status = .committed (n + 1) ∧ tx.own = ws) ∨ P ws

theorem getElem?_append_singleton {α : Type} (l : List α) (a : α) (n : Nat) (x : α)
    (h : (l ++ [a])[n]? = some x) : l[n]? = some x ∨ (n = l.length ∧ x = a) := by
  by_cases hn : n < l.length
  · rw [List.getElem?_append_left hn] at h; exact Or.inl h
  · rw [List.getElem?_append_right (by omega)] at h
    by_cases hz : n - l.length = 0
    · rw [hz] at h; simp at h; exact Or.inr ⟨by omega, h.symm⟩
    · have : ([a] : List α)[n - l.length]? = none := by
        rw [List.getElem?_eq_none]; simp; omega
      rw [this] at h; simp at h

/-- replacing the state of an ACTIVE transaction keeps every justification. -/
theorem just_setTx (s : Sys) (P : WriteSet → Prop) (i : Nat) (tx tx' : TxSt) (idx' : List Nat)
    (htx : s.txs[i]? = some tx) (hact : tx.status = .active) (h : Just s P) :
    Just (setTx { s with idx := idx' } i tx') P := by
  unfold Just
  intro n ws hn
  rcases h n ws hn with ⟨j, t, h1, h2, h3⟩ | hp
  · left
    have hj : j ≠ i := by
      intro he; subst he
      rw [htx] at h1; injection h1 with h1; subst h1
      rw [hact] at h2; simp at h2
    exact ⟨j, t, by rw [setTx_get_ne _ i j _ hj]; exact h1, h2, h3⟩
  · exact Or.inr hp

theorem just_step (cfg : Cfg) (s : Sys) (P : WriteSet → Prop) (st : Step) (h : Just s P) :
    Just (step cfg s st) (fun ws => P ws ∨ st = .wcommit ws) := by
  have hweak : ∀ s', Just s' P → Just s' (fun ws => P ws ∨ st = .wcommit ws) := by
    intro s' hj
    unfold Just
    intro n ws hn
    rcases hj n ws hn with h1 | h1
    · exact Or.inl h1
    · exact Or.inr (Or.inl h1)
  cases st with
  | wcommit ws0 =>
    unfold step
    by_cases hw : ws0.isEmpty = true
    · simp only [hw, ↓reduceIte]; exact hweak s h
    · have hw' : ws0.isEmpty = false := by simpa using hw
      simp only [hw', Bool.false_eq_true, ↓reduceIte]
      unfold Just
      intro n ws hn
      rcases getElem?_append_singleton s.log ws0 n ws hn with h1 | ⟨_, h2⟩
      · rcases h n ws h1 with h3 | h3
        · exact Or.inl h3
        · exact Or.inr (Or.inl h3)
      · subst h2; exact Or.inr (Or.inr rfl)
  | index j n => exact hweak _ (by simp only [step]; exact h)
  | op i c =>
    apply hweak
    cases htx : s.txs[i]? with
    | none =>
      have : step cfg s (.op i c) = s := by simp [step, htx]
      rw [this]; exact h
    | some tx =>
      by_cases hact : tx.status = .active
      · cases hprog : tx.prog with
        | nil =>
          have : step cfg s (.op i c) = s := by simp [step, htx, hact, hprog]
          rw [this]; exact h
        | cons op rest =>
          by_cases hc : op = .commit
          · subst hc
            have hstep : step cfg s (.op i c) = commitTx cfg s i { tx with prog := rest } := by
              simp [step, htx, hact, hprog]
            rw [hstep]
            unfold commitTx
            by_cases hown : tx.own.isEmpty = true
            · simp only [hown, ↓reduceIte]
              exact just_setTx s P i tx _ s.idx htx hact h
            · have hown' : tx.own.isEmpty = false := by simpa using hown
              simp only [hown', Bool.false_eq_true, ↓reduceIte]
              split
              · -- committed: the new log entry is justified by the transaction itself
                unfold Just
                intro n ws hn
                rcases getElem?_append_singleton s.log tx.own n ws hn with h1 | ⟨h2, h3⟩
                · rcases h n ws h1 with ⟨j, t, g1, g2, g3⟩ | hp
                  · left
                    have hj : j ≠ i := by
                      intro he; subst he
                      rw [htx] at g1; injection g1 with g1; subst g1
                      rw [hact] at g2; simp at g2
                    exact ⟨j, t, by rw [setTx_get_ne _ i j _ hj]; exact g1, g2, g3⟩
                  · exact Or.inr hp
                · left
                  refine ⟨i, _, setTx_get_self _ i tx _ (by exact htx), ?_, ?_⟩
                  · simp [push, h2]
                  · simp [push, h3]
              · exact just_setTx s P i tx _ _ htx hact h
          · by_cases hcc : op = .cancel
            · subst hcc
              have hstep : step cfg s (.op i c) =
                  setTx s i (push { { tx with prog := rest } with status := .cancelled, prog := [] } .cancelled) := by
                simp [step, htx, hact, hprog]
              rw [hstep]
              exact just_setTx s P i tx _ s.idx htx hact h
            · have hne : notEnd op := ⟨hc, hcc⟩
              -- any index bound will do for the normal form: use the trivial one
              by_cases hidx : ∀ t ∈ s.idx, t ≤ s.log.length
              · obtain ⟨idx', nb, _, _, _, hstep⟩ := step_op_run cfg s i c tx op rest htx hact hprog hne hidx
                rw [hstep]
                exact just_setTx s P i tx _ idx' htx hact h
              · -- without the bound the same shape holds (the bound is only about numbers)
                have hshape : ∃ idx' tx', step cfg s (.op i c) = setTx { s with idx := idx' } i tx' := by
                  unfold step
                  simp only [htx, hact, hprog]
                  cases op with
                  | commit => exact absurd rfl hc
                  | cancel => exact absurd rfl hcc
                  | get k ign =>
                    simp only [Op.snapKey]
                    split
                    · exact ⟨s.idx, _, rfl⟩
                    · split
                      · exact ⟨s.idx, _, rfl⟩
                      · exact ⟨_, _, rfl⟩
                  | getPrefix p neq ign =>
                    simp only [Op.snapKey]
                    split
                    · exact ⟨s.idx, _, rfl⟩
                    · split
                      · exact ⟨s.idx, _, rfl⟩
                      · exact ⟨_, _, rfl⟩
                  | scan spec segs =>
                    simp only [Op.snapKey]
                    split
                    · exact ⟨s.idx, _, rfl⟩
                    · split
                      · exact ⟨s.idx, _, rfl⟩
                      · exact ⟨_, _, rfl⟩
                  | markPrefix spec =>
                    simp only [Op.snapKey]
                    split
                    · exact ⟨s.idx, _, rfl⟩
                    · split
                      · exact ⟨s.idx, _, rfl⟩
                      · exact ⟨_, _, rfl⟩
                  | set k v =>
                    simp only [Op.snapKey]
                    split
                    · exact ⟨s.idx, _, rfl⟩
                    · split
                      · exact ⟨s.idx, _, rfl⟩
                      · exact ⟨_, _, rfl⟩
                  | delete k =>
                    simp only [Op.snapKey]
                    split
                    · exact ⟨s.idx, _, rfl⟩
                    · split
                      · exact ⟨s.idx, _, rfl⟩
                      · exact ⟨_, _, rfl⟩
                obtain ⟨idx', tx', hstep⟩ := hshape
                rw [hstep]
                exact just_setTx s P i tx _ idx' htx hact h
      · rw [step_inactive cfg s i c tx htx hact]; exact h

theorem just_run (cfg : Cfg) : ∀ (sched : List Step) (s : Sys) (P : WriteSet → Prop), Just s P →
    Just (run cfg s sched) (fun ws => P ws ∨ Step.wcommit ws ∈ sched) := by
  intro sched
  induction sched with
  | nil =>
    intro s P h
    unfold Just
    intro n ws hn
    rcases h n ws hn with h1 | h1
    · exact Or.inl h1
    · exact Or.inr (Or.inl h1)
  | cons st rest ih =>
    intro s P h
    have h1 := just_step cfg s P st h
    have h2 := ih (step cfg s st) _ h1
    unfold Just
    intro n ws hn
    unfold run at hn
    simp only [List.foldl_cons] at hn
    rcases h2 n ws hn with g | g
    · left
      unfold run
      simp only [List.foldl_cons]
      exact g
    · right
      rcases g with (g | g) | g
      · exact Or.inl g
      · exact Or.inr (by rw [g]; simp)
      · exact Or.inr (by simp [g])

end ImmuModel.Mvcc.MiscAux
