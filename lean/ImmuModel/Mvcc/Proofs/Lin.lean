/-
C06 helper proofs: invariants of the database-level step system (`Mvcc/Linearize.lean`) along every schedule.
-/
import ImmuModel.Mvcc.Proofs.Serial

namespace ImmuModel.Mvcc.LinAux
open ImmuModel ImmuModel.Mvcc ImmuModel.Mvcc.ViewLemmas ImmuModel.Mvcc.SerialAux

/-! ## answers only depend on the log prefix they were computed from -/

theorem historyOf_append (l ext : Log) (k : Bytes) : ∀ t, t ≤ l.length → historyOf (l ++ ext) t k = historyOf l t k := by
  intro t
  induction t with
  | zero => intro _; simp [historyOf]
  | succ t ih =>
    intro ht
    have hlt : t < l.length := by omega
    unfold historyOf
    rw [List.getElem?_append_left hlt, ih (by omega)]

theorem getAt_append (l ext : Log) (t atTx : Nat) (k : Bytes) (ht : t ≤ l.length) :
    getAt (l ++ ext) t atTx k = getAt l t atTx k := by
  unfold getAt
  by_cases h0 : (atTx == 0) = true
  · simp only [h0, ↓reduceIte]; rw [viewGet_ext l ext t ht]
  · simp only [h0]
    by_cases hlt : t < atTx
    · simp [hlt]
    · simp only [hlt, ↓reduceIte]
      have h1 : atTx ≠ 0 := by simpa using h0
      rw [List.getElem?_append_left (by omega)]
      simp

theorem resolveOn_append (l ext : Log) (t : Nat) (k : Bytes) (ht : t ≤ l.length) :
    resolveOn (l ++ ext) t k = resolveOn l t k := by
  unfold resolveOn
  rw [viewGet_ext l ext t ht]
  cases getF (viewGet l t) k true with
  | none => rfl
  | some v =>
    simp only []
    cases refTarget v with
    | none => rfl
    | some p => obtain ⟨a, tk⟩ := p; simp only []; rw [getAt_append l ext t a tk ht]

theorem evalQuery_append (cfg : Cfg) (l ext : Log) (t : Nat) (q : Query) (ht : t ≤ l.length) :
    evalQuery cfg (l ++ ext) t q = evalQuery cfg l t q := by
  cases q with
  | get k => simp only [evalQuery]; exact resolveOn_append l ext t k ht
  | getAll ks =>
    simp only [evalQuery, getAllEntries, fun k => resolveOn_append l ext t k ht]
  | scan spec limit => simp only [evalQuery]; rw [viewGet_ext l ext t ht]
  | history k => simp only [evalQuery]; rw [historyOf_append l ext k t ht]
  | count pfx => simp only [evalQuery]; rw [viewGet_ext l ext t ht]

theorem getAllEntries_append (l ext : Log) (t : Nat) (ks : List Bytes) (ht : t ≤ l.length) :
    getAllEntries (l ++ ext) t ks = getAllEntries l t ks := by
  simp only [getAllEntries, fun k => resolveOn_append l ext t k ht]

/-- the code reads every key of a `GetAll` from the snapshot (extracted fact `Gen.dbGetAllLooksUpInSnapshot`). -/
theorem getAllSrc_snap (snapTs liveTs : Nat) : getAllSrc snapTs liveTs = snapTs := by
  simp [getAllSrc, ImmuModel.Gen.dbGetAllLooksUpInSnapshot]

/-- one loop iteration of `GetAll` on the snapshot = the next key of the one-view answer. -/
theorem getAllLookup_step (log : Log) (t : Nat) (k : Bytes) (rest : List Bytes) (acc : List (Bytes × Ver)) :
    getAllLookup log t k acc ++ getAllEntries log t rest = acc ++ getAllEntries log t (k :: rest) := by
  unfold getAllLookup getAllEntries
  rw [List.filterMap_cons]
  cases resolveOn log t k <;> simp

theorem presHold_append (l ext : Log) (t : Nat) (pre : List Pre) (ht : t ≤ l.length) :
    presHold (l ++ ext) t pre = presHold l t pre := by
  unfold presHold
  rw [viewGet_ext l ext t ht]


/-! ## the invariant -/

def cmtAt (d : Db) (i : Nat) : Nat := d.cmt.getD i 0

def ResOK (cfg : Cfg) (log : Log) (r : OpRec) : Prop :=
  match r.op, r.out with
  | .write ws pre, .applied id => 1 ≤ id ∧ id ≤ log.length ∧ log[id - 1]? = some ws ∧ presHold log (id - 1) pre = true
  | .write _ pre, .rejected v => v ≤ log.length ∧ presHold log v pre = false
  | .read q, .answer v res => v ≤ log.length ∧ res = evalQuery cfg log v q
  | .read _, .answer2 _ v _ => v ≤ log.length
  | .read _, .failed => True
  | _, _ => False

def TimeOK (d : Db) (r : OpRec) : Prop :=
  r.inv ≤ r.resp ∧ r.resp < d.now ∧
  match r.out with
  | .applied id => cmtAt d r.inv < id ∧ id ≤ cmtAt d r.resp
  | .rejected v => cmtAt d r.inv ≤ v ∧ v ≤ cmtAt d r.resp
  | .answer v _ => cmtAt d r.inv ≤ v ∧ v ≤ cmtAt d r.resp
  | .answer2 v1 v2 _ => cmtAt d r.inv ≤ v1 ∧ v1 ≤ v2 ∧ v2 ≤ cmtAt d r.resp
  | .failed => True

def ClOK (d : Db) (cl : Client) : Prop :=
  match cl.phase with
  | .idle => True
  | .wInvoked => cl.inv < d.now ∧ ∃ ws pre, cl.op = .write ws pre
  | .wPre id => cl.inv < d.now ∧ cmtAt d cl.inv < id ∧ 1 ≤ id ∧ id ≤ d.log.length ∧
      ∃ ws pre, cl.op = .write ws pre ∧ d.log[id - 1]? = some ws ∧ presHold d.log (id - 1) pre = true
  | .rInvoked c0 => cl.inv < d.now ∧ cmtAt d cl.inv = c0 ∧ ∃ q, cl.op = .read q
  | .rHalf c0 t1 _ _ _ => cl.inv < d.now ∧ cmtAt d cl.inv = c0 ∧ c0 ≤ t1 ∧ t1 ≤ d.idx ∧ ∃ q, cl.op = .read q
  -- a `GetAll` in progress: what has been collected plus what the remaining keys give ON THE SNAPSHOT is the one-view answer
  | .rSnap c0 t todo acc => cl.inv < d.now ∧ cmtAt d cl.inv = c0 ∧ c0 ≤ t ∧ t ≤ d.idx ∧ t ≤ d.log.length ∧
      ∃ ks, cl.op = .read (.getAll ks) ∧ acc ++ getAllEntries d.log t todo = getAllEntries d.log t ks

structure DInv (cfg : Cfg) (d : Db) : Prop where
  idx_le : d.idx ≤ d.committed
  hub_eq : d.hub = d.idx
  cm_le : d.committed ≤ d.log.length
  cmt_len : d.cmt.length = d.now
  cmt_mono : ∀ i j, i ≤ j → j < d.now → cmtAt d i ≤ cmtAt d j
  cmt_last : ∀ i, i < d.now → cmtAt d i ≤ d.committed
  cl : ∀ (c : Nat) (cl : Client), d.clients[c]? = some cl → ClOK d cl
  hist : ∀ r ∈ d.hist, TimeOK d r ∧ ResOK cfg d.log r

/-- how one core step may change the numeric part and the log (`Evolves d e`). -/
structure Evolves (d e : Db) : Prop where
  now_eq : e.now = d.now
  cmt_eq : e.cmt = d.cmt
  log_ext : ∃ ext, e.log = d.log ++ ext
  cm_ge : d.committed ≤ e.committed
  idx_ge : d.idx ≤ e.idx

theorem ResOK.mono {cfg : Cfg} {l : Log} {r : OpRec} (ext : Log) (h : ResOK cfg l r) : ResOK cfg (l ++ ext) r := by
  unfold ResOK at h ⊢
  split
  · rename_i ws pre id ho hout
    rw [ho, hout] at h
    simp only [] at h
    obtain ⟨h1, h2, h3, h4⟩ := h
    refine ⟨h1, by rw [List.length_append]; omega, ?_, ?_⟩
    · rw [List.getElem?_append_left (by omega)]; exact h3
    · rw [presHold_append l ext _ pre (by omega)]; exact h4
  · rename_i ws pre v ho hout
    rw [ho, hout] at h
    simp only [] at h
    exact ⟨by rw [List.length_append]; omega, by rw [presHold_append l ext _ pre h.1]; exact h.2⟩
  · rename_i q v res ho hout
    rw [ho, hout] at h
    simp only [] at h
    exact ⟨by rw [List.length_append]; omega, by rw [evalQuery_append cfg l ext _ q h.1]; exact h.2⟩
  · rename_i q v1 v res ho hout
    rw [ho, hout] at h
    simp only [] at h
    rw [List.length_append]; omega
  · trivial
  · rename_i h1 h2 h3 h4 h5
    split at h
    · rename_i ws pre id ho hout; exact absurd hout (by intro e; exact h1 _ _ _ ho e)
    · rename_i ws pre v ho hout; exact absurd hout (by intro e; exact h2 _ _ _ ho e)
    · rename_i q v res ho hout; exact absurd hout (by intro e; exact h3 _ _ _ ho e)
    · rename_i q v1 v res ho hout; exact absurd hout (by intro e; exact h4 _ _ _ _ ho e)
    · rename_i q ho hout; exact absurd hout (by intro e; exact h5 _ ho e)
    · exact h


/-- the bookkeeping `dbStep` adds on top of `dbStepCore`. -/
def book (d e : Db) : Db := { e with now := d.now + 1, cmt := d.cmt ++ [e.committed] }

theorem dbStep_eq (cfg : Cfg) (d : Db) (s : DbStep) : dbStep cfg d s = book d (dbStepCore cfg d s) := rfl

theorem cmtAt_book_old (d e : Db) (hl : d.cmt.length = d.now) (i : Nat) (hi : i < d.now) :
    cmtAt (book d e) i = cmtAt d i := by
  unfold cmtAt book List.getD
  simp only []
  rw [List.getElem?_append_left (by omega)]

theorem cmtAt_book_new (d e : Db) (hl : d.cmt.length = d.now) : cmtAt (book d e) d.now = e.committed := by
  unfold cmtAt book List.getD
  simp only []
  rw [List.getElem?_append_right (by omega)]
  simp [hl]

theorem TimeOK.mono {d e : Db} {r : OpRec} (hl : d.cmt.length = d.now) (h : TimeOK d r) : TimeOK (book d e) r := by
  obtain ⟨h1, h2, h3⟩ := h
  have hi : cmtAt (book d e) r.inv = cmtAt d r.inv := cmtAt_book_old d e hl _ (by omega)
  have hr : cmtAt (book d e) r.resp = cmtAt d r.resp := cmtAt_book_old d e hl _ h2
  refine ⟨h1, by show r.resp < d.now + 1; omega, ?_⟩
  rw [hi, hr]
  exact h3

theorem ClOK.mono {d e : Db} {cl : Client} (hl : d.cmt.length = d.now) (hev : Evolves d e) (h : ClOK d cl) :
    ClOK (book d e) cl := by
  obtain ⟨ext, hext⟩ := hev.log_ext
  unfold ClOK at h ⊢
  split
  · trivial
  · rename_i hp; rw [hp] at h; simp only [] at h
    exact ⟨by show cl.inv < d.now + 1; omega, h.2⟩
  · rename_i id hp; rw [hp] at h; simp only [] at h
    obtain ⟨h1, h2, h3, h4, ws, pre, h5, h6, h7⟩ := h
    refine ⟨by show cl.inv < d.now + 1; omega, by rw [cmtAt_book_old d e hl _ h1]; exact h2, h3, ?_, ws, pre, h5, ?_, ?_⟩
    · show id ≤ e.log.length; rw [hext, List.length_append]; omega
    · show e.log[id - 1]? = some ws; rw [hext, List.getElem?_append_left (by omega)]; exact h6
    · show presHold e.log (id - 1) pre = true; rw [hext, presHold_append _ ext _ pre (by omega)]; exact h7
  · rename_i c0 hp; rw [hp] at h; simp only [] at h
    exact ⟨by show cl.inv < d.now + 1; omega, by rw [cmtAt_book_old d e hl _ h.1]; exact h.2.1, h.2.2⟩
  · rename_i c0 t1 a b c hp; rw [hp] at h; simp only [] at h
    obtain ⟨h1, h2, h3, h4, h5⟩ := h
    exact ⟨by show cl.inv < d.now + 1; omega, by rw [cmtAt_book_old d e hl _ h1]; exact h2, h3,
      by show t1 ≤ e.idx; have := hev.idx_ge; omega, h5⟩
  · rename_i c0 t todo acc hp; rw [hp] at h; simp only [] at h
    obtain ⟨h1, h2, h3, h4, h5, ks, h6, h7⟩ := h
    refine ⟨by show cl.inv < d.now + 1; omega, by rw [cmtAt_book_old d e hl _ h1]; exact h2, h3,
      by show t ≤ e.idx; have := hev.idx_ge; omega, ?_, ks, h6, ?_⟩
    · show t ≤ e.log.length; rw [hext, List.length_append]; omega
    · show acc ++ getAllEntries e.log t todo = getAllEntries e.log t ks
      rw [hext, getAllEntries_append _ ext t todo h5, getAllEntries_append _ ext t ks h5]; exact h7

theorem dinv_frame (cfg : Cfg) (d e : Db) (h : DInv cfg d) (hev : Evolves d e)
    (h1 : e.idx ≤ e.committed) (hhub : e.hub = e.idx) (h2 : e.committed ≤ e.log.length)
    (hcl : ∀ (c : Nat) (cl : Client), e.clients[c]? = some cl → d.clients[c]? = some cl ∨ ClOK (book d e) cl)
    (hhist : ∀ r ∈ e.hist, r ∈ d.hist ∨ (TimeOK (book d e) r ∧ ResOK cfg e.log r)) :
    DInv cfg (book d e) := by
  have hl := h.cmt_len
  obtain ⟨ext, hext⟩ := hev.log_ext
  refine ⟨h1, hhub, h2, ?_, ?_, ?_, ?_, ?_⟩
  · show (d.cmt ++ [e.committed]).length = d.now + 1
    simp [hl]
  · intro i j hij hj
    have hj' : j < d.now + 1 := hj
    by_cases hjn : j < d.now
    · rw [cmtAt_book_old d e hl i (by omega), cmtAt_book_old d e hl j hjn]
      exact h.cmt_mono i j hij hjn
    · have hje : j = d.now := by omega
      subst hje
      rw [cmtAt_book_new d e hl]
      by_cases hin : i < d.now
      · rw [cmtAt_book_old d e hl i hin]
        have := h.cmt_last i hin
        have := hev.cm_ge
        omega
      · have : i = d.now := by omega
        subst this
        rw [cmtAt_book_new d e hl]; exact Nat.le_refl _
  · intro i hi
    have hi' : i < d.now + 1 := hi
    show cmtAt (book d e) i ≤ e.committed
    by_cases hin : i < d.now
    · rw [cmtAt_book_old d e hl i hin]
      have := h.cmt_last i hin
      have := hev.cm_ge
      omega
    · have : i = d.now := by omega
      subst this
      rw [cmtAt_book_new d e hl]; exact Nat.le_refl _
  · intro c cl hc
    rcases hcl c cl hc with ho | hn
    · exact ClOK.mono hl hev (h.cl c cl ho)
    · exact hn
  · intro r hr
    rcases hhist r hr with ho | hn
    · obtain ⟨t1, t2⟩ := h.hist r ho
      refine ⟨TimeOK.mono hl t1, ?_⟩
      show ResOK cfg e.log r
      rw [hext]; exact ResOK.mono ext t2
    · exact hn


theorem Evolves.refl (d : Db) : Evolves d d := ⟨rfl, rfl, ⟨[], by simp⟩, Nat.le_refl _, Nat.le_refl _⟩

theorem dinv_noop (cfg : Cfg) (d : Db) (h : DInv cfg d) : DInv cfg (book d d) :=
  dinv_frame cfg d d h (Evolves.refl d) h.idx_le h.hub_eq h.cm_le (fun _ _ hc => Or.inl hc) (fun _ hr => Or.inl hr)

theorem clients_set_cases (d : Db) (c : Nat) (cl cl' : Client) (hc : d.clients[c]? = some cl) (j : Nat) (x : Client)
    (hj : (d.clients.set c cl')[j]? = some x) : d.clients[j]? = some x ∨ x = cl' := by
  by_cases hjc : j = c
  · subst hjc
    have hlt : j < d.clients.length := by
      by_cases hlt : j < d.clients.length
      · exact hlt
      · rw [List.getElem?_eq_none (by omega)] at hc; simp at hc
    rw [List.getElem?_set_self hlt] at hj
    injection hj with hj
    exact Or.inr hj.symm
  · rw [List.getElem?_set_ne (by omega)] at hj
    exact Or.inl hj

theorem cmtAt_le_committed (cfg : Cfg) (d : Db) (h : DInv cfg d) (i : Nat) (hi : i < d.now) : cmtAt d i ≤ d.log.length := by
  have := h.cmt_last i hi
  have := h.cm_le
  omega

/-- setting one client to a state that satisfies `ClOK` after the step. -/
theorem dinv_set (cfg : Cfg) (d e : Db) (h : DInv cfg d) (hev : Evolves d e)
    (h1 : e.idx ≤ e.committed) (hhub : e.hub = e.idx) (h2 : e.committed ≤ e.log.length)
    (c : Nat) (cl cl' : Client) (hc : d.clients[c]? = some cl) (hcs : e.clients = d.clients.set c cl')
    (hok : ClOK (book d e) cl')
    (hhist : ∀ r ∈ e.hist, r ∈ d.hist ∨ (TimeOK (book d e) r ∧ ResOK cfg e.log r)) :
    DInv cfg (book d e) := by
  apply dinv_frame cfg d e h hev h1 hhub h2 _ hhist
  intro j x hj
  rw [hcs] at hj
  rcases clients_set_cases d c cl cl' hc j x hj with h3 | h3
  · exact Or.inl h3
  · subst h3; exact Or.inr hok

theorem dinv_step (cfg : Cfg) (d : Db) (s : DbStep) (hs : ∀ n, s ≠ .compact n) (h : DInv cfg d) :
    DInv cfg (dbStep cfg d s) := by
  rw [dbStep_eq]
  have hl := h.cmt_len
  have hhe := h.hub_eq
  cases s with
  | sync n =>
    simp only [dbStepCore]
    apply dinv_frame cfg d { d with committed := max d.committed (min n d.log.length) } h
      ⟨rfl, rfl, ⟨[], by simp⟩, Nat.le_max_left _ _, Nat.le_refl _⟩
    · show d.idx ≤ max d.committed (min n d.log.length)
      have := h.idx_le; omega
    · exact hhe
    · show max d.committed (min n d.log.length) ≤ d.log.length
      have := h.cm_le; omega
    · exact fun _ _ hc => Or.inl hc
    · exact fun _ hr => Or.inl hr
  | index n =>
    simp only [dbStepCore]
    apply dinv_frame cfg d { d with idx := max d.idx (min n d.committed), hub := max d.hub (max d.idx (min n d.committed)) } h
      ⟨rfl, rfl, ⟨[], by simp⟩, Nat.le_refl _, Nat.le_max_left _ _⟩
    · show max d.idx (min n d.committed) ≤ d.committed
      have := h.idx_le; omega
    · show max d.hub (max d.idx (min n d.committed)) = max d.idx (min n d.committed)
      omega
    · exact h.cm_le
    · exact fun _ _ hc => Or.inl hc
    · exact fun _ hr => Or.inl hr
  | compact n => exact absurd rfl (hs n)
  | invoke c op =>
    cases hc : d.clients[c]? with
    | none => simp only [dbStepCore, hc]; exact dinv_noop cfg d h
    | some cl =>
      cases hp : cl.phase with
      | idle =>
        cases op with
        | write ws pre =>
          simp only [dbStepCore, hc, hp]
          apply dinv_set cfg d (setClient d c { phase := .wInvoked, op := .write ws pre, inv := d.now }) h
            ⟨rfl, rfl, ⟨[], by simp [setClient]⟩, Nat.le_refl _, Nat.le_refl _⟩ h.idx_le hhe h.cm_le c cl _ hc rfl
          · unfold ClOK; simp only []
            exact ⟨by show d.now < d.now + 1; omega, ws, pre, rfl⟩
          · exact fun _ hr => Or.inl hr
        | read q =>
          simp only [dbStepCore, hc, hp]
          apply dinv_set cfg d (setClient d c { phase := .rInvoked d.committed, op := .read q, inv := d.now }) h
            ⟨rfl, rfl, ⟨[], by simp [setClient]⟩, Nat.le_refl _, Nat.le_refl _⟩ h.idx_le hhe h.cm_le c cl _ hc rfl
          · unfold ClOK; simp only []
            refine ⟨by show d.now < d.now + 1; omega, ?_, q, rfl⟩
            rw [cmtAt_book_new d _ hl]; rfl
          · exact fun _ hr => Or.inl hr
      | wInvoked => simp only [dbStepCore, hc, hp]; exact dinv_noop cfg d h
      | wPre id => simp only [dbStepCore, hc, hp]; exact dinv_noop cfg d h
      | rInvoked c0 => simp only [dbStepCore, hc, hp]; exact dinv_noop cfg d h
      | rHalf a b c' e f => simp only [dbStepCore, hc, hp]; exact dinv_noop cfg d h
      | rSnap a b c' e => simp only [dbStepCore, hc, hp]; exact dinv_noop cfg d h
  | precommit c =>
    cases hc : d.clients[c]? with
    | none => simp only [dbStepCore, hc]; exact dinv_noop cfg d h
    | some cl =>
      have hclok := h.cl c cl hc
      cases hp : cl.phase with
      | wInvoked =>
        unfold ClOK at hclok
        rw [hp] at hclok
        simp only [] at hclok
        cases hop : cl.op with
        | read q => simp only [dbStepCore, hc, hp, hop]; exact dinv_noop cfg d h
        | write ws pre =>
          simp only [dbStepCore, hc, hp, hop]
          have hcm : cmtAt d cl.inv ≤ d.log.length := cmtAt_le_committed cfg d h _ hclok.1
          by_cases hpe : pre.isEmpty = true
          · simp only [hpe, ↓reduceIte]
            have hpre : pre = [] := by simpa using hpe
            apply dinv_set cfg d (setClient { d with log := d.log ++ [ws] } c { phase := .wPre (d.log.length + 1), op := .write ws pre, inv := cl.inv }) h
              ⟨rfl, rfl, ⟨[ws], rfl⟩, Nat.le_refl _, Nat.le_refl _⟩ h.idx_le hhe
              (by show d.committed ≤ (d.log ++ [ws]).length; have := h.cm_le; rw [List.length_append]; omega)
              c cl _ hc rfl
            · unfold ClOK; simp only []
              refine ⟨by show cl.inv < d.now + 1; omega, ?_, by omega, ?_, ws, pre, rfl, ?_, ?_⟩
              · rw [cmtAt_book_old d _ hl _ hclok.1]; omega
              · show d.log.length + 1 ≤ (d.log ++ [ws]).length; simp
              · show (d.log ++ [ws])[d.log.length + 1 - 1]? = some ws; simp
              · rw [hpre]; rfl
            · exact fun _ hr => Or.inl hr
          · simp only [hpe]
            have hidx' : (if d.log.length ≤ d.hub then d.idx else d.log.length) = d.log.length := by
              split
              · have := h.idx_le; have := h.cm_le; omega
              · rfl
            have hhub' : max d.hub d.log.length = d.log.length := by
              have := h.idx_le; have := h.cm_le; omega
            simp only [hidx', hhub', Bool.false_eq_true, ↓reduceIte]
            by_cases hh : presHold d.log d.log.length pre = true
            · simp only [hh, ↓reduceIte]
              apply dinv_set cfg d (setClient { d with log := d.log ++ [ws], committed := d.log.length, idx := d.log.length, hub := d.log.length } c
                  { phase := .wPre (d.log.length + 1), op := .write ws pre, inv := cl.inv }) h
                ⟨rfl, rfl, ⟨[ws], rfl⟩, h.cm_le, by have := h.idx_le; have := h.cm_le; show d.idx ≤ d.log.length; omega⟩
                (Nat.le_refl _) rfl
                (by show d.log.length ≤ (d.log ++ [ws]).length; simp)
                c cl _ hc rfl
              · unfold ClOK; simp only []
                refine ⟨by show cl.inv < d.now + 1; omega, ?_, by omega, ?_, ws, pre, rfl, ?_, ?_⟩
                · rw [cmtAt_book_old d _ hl _ hclok.1]; omega
                · show d.log.length + 1 ≤ (d.log ++ [ws]).length; simp
                · show (d.log ++ [ws])[d.log.length + 1 - 1]? = some ws; simp
                · show presHold (d.log ++ [ws]) (d.log.length + 1 - 1) pre = true
                  simp only [Nat.add_sub_cancel]
                  rw [presHold_append d.log [ws] _ pre (Nat.le_refl _)]; exact hh
              · exact fun _ hr => Or.inl hr
            · simp only [hh]
              have hh' : presHold d.log d.log.length pre = false := by simpa using hh
              apply dinv_set cfg d (finish { d with committed := d.log.length, idx := d.log.length, hub := d.log.length } c cl (.rejected d.log.length)) h
                ⟨rfl, rfl, ⟨[], by simp [finish, setClient]⟩, h.cm_le,
                  by have := h.idx_le; have := h.cm_le; show d.idx ≤ d.log.length; omega⟩
                (Nat.le_refl _) rfl (Nat.le_refl _) c cl { cl with phase := .idle } hc rfl
              · unfold ClOK; trivial
              · intro r hr
                simp only [finish, setClient, List.mem_append, List.mem_singleton] at hr
                rcases hr with hr | hr
                · exact Or.inl hr
                · right
                  subst hr
                  refine ⟨⟨by show cl.inv ≤ d.now; omega, by show d.now < d.now + 1; omega, ?_⟩, ?_⟩
                  · simp only []
                    rw [cmtAt_book_old d _ hl _ hclok.1, cmtAt_book_new d _ hl]
                    exact ⟨hcm, Nat.le_refl _⟩
                  · unfold ResOK
                    simp only [hop]
                    exact ⟨Nat.le_refl _, hh'⟩
      | idle => simp only [dbStepCore, hc, hp]; exact dinv_noop cfg d h
      | wPre id => simp only [dbStepCore, hc, hp]; exact dinv_noop cfg d h
      | rInvoked c0 => simp only [dbStepCore, hc, hp]; exact dinv_noop cfg d h
      | rHalf a b c' e f => simp only [dbStepCore, hc, hp]; exact dinv_noop cfg d h
      | rSnap a b c' e => simp only [dbStepCore, hc, hp]; exact dinv_noop cfg d h
  | wdone c =>
    cases hc : d.clients[c]? with
    | none => simp only [dbStepCore, hc]; exact dinv_noop cfg d h
    | some cl =>
      have hclok := h.cl c cl hc
      cases hp : cl.phase with
      | wPre id =>
        unfold ClOK at hclok
        rw [hp] at hclok
        simp only [] at hclok
        obtain ⟨k1, k2, k3, k4, ws, pre, k5, k6, k7⟩ := hclok
        simp only [dbStepCore, hc, hp, hhe]
        by_cases hcond : (decide (id ≤ d.committed) && decide (id ≤ d.idx)) = true
        · simp only [hcond, ↓reduceIte]
          simp only [Bool.and_eq_true, decide_eq_true_eq] at hcond
          apply dinv_set cfg d (finish d c cl (.applied id)) h
            ⟨rfl, rfl, ⟨[], by simp [finish, setClient]⟩, Nat.le_refl _, Nat.le_refl _⟩ h.idx_le hhe h.cm_le
            c cl { cl with phase := .idle } hc rfl
          · unfold ClOK; trivial
          · intro r hr
            simp only [finish, setClient, List.mem_append, List.mem_singleton] at hr
            rcases hr with hr | hr
            · exact Or.inl hr
            · right
              subst hr
              refine ⟨⟨by show cl.inv ≤ d.now; omega, by show d.now < d.now + 1; omega, ?_⟩, ?_⟩
              · simp only []
                rw [cmtAt_book_old d _ hl _ k1, cmtAt_book_new d _ hl]
                exact ⟨k2, hcond.1⟩
              · unfold ResOK
                simp only [k5]
                exact ⟨k3, k4, k6, k7⟩
        · simp only [hcond]; exact dinv_noop cfg d h
      | idle => simp only [dbStepCore, hc, hp]; exact dinv_noop cfg d h
      | wInvoked => simp only [dbStepCore, hc, hp]; exact dinv_noop cfg d h
      | rInvoked c0 => simp only [dbStepCore, hc, hp]; exact dinv_noop cfg d h
      | rHalf a b c' e f => simp only [dbStepCore, hc, hp]; exact dinv_noop cfg d h
      | rSnap a b c' e => simp only [dbStepCore, hc, hp]; exact dinv_noop cfg d h
  | rdone c choice =>
    cases hc : d.clients[c]? with
    | none => simp only [dbStepCore, hc]; exact dinv_noop cfg d h
    | some cl =>
      have hclok := h.cl c cl hc
      -- a finished read: the generic obligation
      have fin : ∀ (out : Outcome), (TimeOK (book d (finish d c cl out)) ⟨c, cl.op, cl.inv, d.now, out⟩ ∧
            ResOK cfg d.log ⟨c, cl.op, cl.inv, d.now, out⟩) → DInv cfg (book d (finish d c cl out)) := by
        intro out hout
        apply dinv_set cfg d (finish d c cl out) h
          ⟨rfl, rfl, ⟨[], by simp [finish, setClient]⟩, Nat.le_refl _, Nat.le_refl _⟩ h.idx_le hhe h.cm_le
          c cl { cl with phase := .idle } hc rfl
        · unfold ClOK; trivial
        · intro r hr
          simp only [finish, setClient, List.mem_append, List.mem_singleton] at hr
          rcases hr with hr | hr
          · exact Or.inl hr
          · right; subst hr; exact hout
      cases hp : cl.phase with
      | rInvoked c0 =>
        unfold ClOK at hclok
        rw [hp] at hclok
        simp only [] at hclok
        obtain ⟨k1, k2, _⟩ := hclok
        have hidxlog : d.idx ≤ d.log.length := by have := h.idx_le; have := h.cm_le; omega
        cases hop : cl.op with
        | write ws pre => simp only [dbStepCore, hc, hp, hop]; exact dinv_noop cfg d h
        | read q =>
          by_cases hcond : c0 ≤ d.idx
          · -- time facts shared by every answer at ts t with c0 ≤ t ≤ idx
            have tfact : ∀ (t : Nat) (res : QRes), c0 ≤ t → t ≤ d.idx →
                TimeOK (book d (finish d c cl (.answer t res))) ⟨c, cl.op, cl.inv, d.now, .answer t res⟩ := by
              intro t res h1 h2
              refine ⟨by show cl.inv ≤ d.now; omega, by show d.now < d.now + 1; omega, ?_⟩
              simp only []
              rw [cmtAt_book_old d _ hl _ k1, cmtAt_book_new d _ hl, k2]
              exact ⟨h1, by show t ≤ d.committed; have := h.idx_le; omega⟩
            cases q with
            | get k =>
              simp only [dbStepCore, hc, hp, hop, hhe, hcond, ↓reduceIte]
              cases hg : getF (viewGet d.log d.idx) k true with
              | none =>
                simp only []
                apply fin
                refine ⟨tfact _ _ hcond (Nat.le_refl _), ?_⟩
                unfold ResOK
                simp only [hop]
                exact ⟨hidxlog, by simp [evalQuery, resolveOn, hg]⟩
              | some v =>
                simp only []
                cases hrt : refTarget v with
                | none =>
                  simp only []
                  apply fin
                  refine ⟨tfact _ _ hcond (Nat.le_refl _), ?_⟩
                  unfold ResOK
                  simp only [hop]
                  exact ⟨hidxlog, by simp [evalQuery, resolveOn, hg, hrt]⟩
                | some p =>
                  obtain ⟨atTx, tk⟩ := p
                  simp only []
                  apply dinv_set cfg d (setClient d c { phase := .rHalf c0 d.idx v.tx atTx tk, op := .read (.get k), inv := cl.inv }) h
                    ⟨rfl, rfl, ⟨[], by simp [setClient]⟩, Nat.le_refl _, Nat.le_refl _⟩ h.idx_le hhe h.cm_le
                    c cl _ hc rfl
                  · unfold ClOK; simp only []
                    exact ⟨by show cl.inv < d.now + 1; omega, by rw [cmtAt_book_old d _ hl _ k1]; exact k2, hcond,
                      Nat.le_refl _, _, rfl⟩
                  · exact fun _ hr => Or.inl hr
            | getAll ks =>
              -- only the snapshot is taken: nothing is answered yet
              simp only [dbStepCore, hc, hp, hop, hhe, hcond, ↓reduceIte]
              have hlo : c0 ≤ clamp c0 d.idx choice := by unfold clamp; omega
              have hhi : clamp c0 d.idx choice ≤ d.idx := by unfold clamp; omega
              apply dinv_set cfg d (setClient d c { phase := .rSnap c0 (clamp c0 d.idx choice) ks [], op := .read (.getAll ks), inv := cl.inv }) h
                ⟨rfl, rfl, ⟨[], by simp [setClient]⟩, Nat.le_refl _, Nat.le_refl _⟩ h.idx_le hhe h.cm_le
                c cl _ hc rfl
              · unfold ClOK; simp only []
                exact ⟨by show cl.inv < d.now + 1; omega, by rw [cmtAt_book_old d _ hl _ k1]; exact k2, hlo, hhi,
                  by show clamp c0 d.idx choice ≤ d.log.length; omega, ks, rfl, by simp⟩
              · exact fun _ hr => Or.inl hr
            | scan spec limit =>
              simp only [dbStepCore, hc, hp, hop, hhe, hcond, ↓reduceIte]
              have hlo : c0 ≤ clamp c0 d.idx choice := by unfold clamp; omega
              have hhi : clamp c0 d.idx choice ≤ d.idx := by unfold clamp; omega
              apply fin
              refine ⟨tfact _ _ hlo hhi, ?_⟩
              unfold ResOK; simp only [hop]; exact ⟨by omega, trivial⟩
            | history k =>
              simp only [dbStepCore, hc, hp, hop, hhe, hcond, ↓reduceIte]
              have hlo : c0 ≤ clamp c0 d.idx choice := by unfold clamp; omega
              have hhi : clamp c0 d.idx choice ≤ d.idx := by unfold clamp; omega
              apply fin
              refine ⟨tfact _ _ hlo hhi, ?_⟩
              unfold ResOK; simp only [hop]; exact ⟨by omega, trivial⟩
            | count pfx =>
              simp only [dbStepCore, hc, hp, hop, hhe, hcond, ↓reduceIte]
              have hlo : c0 ≤ clamp c0 d.idx choice := by unfold clamp; omega
              have hhi : clamp c0 d.idx choice ≤ d.idx := by unfold clamp; omega
              apply fin
              refine ⟨tfact _ _ hlo hhi, ?_⟩
              unfold ResOK; simp only [hop]; exact ⟨by omega, trivial⟩
          · simp only [dbStepCore, hc, hp, hop, hhe, hcond]; exact dinv_noop cfg d h
      | rHalf c0 t1 refTx atTx tk =>
        unfold ClOK at hclok
        rw [hp] at hclok
        simp only [] at hclok
        obtain ⟨k1, k2, k3, k4, _⟩ := hclok
        have hidxlog : d.idx ≤ d.log.length := by have := h.idx_le; have := h.cm_le; omega
        cases hop : cl.op with
        | write ws pre => simp only [dbStepCore, hc, hp, hop]; exact dinv_noop cfg d h
        | read q =>
          simp only [dbStepCore, hc, hp, hop]
          have tfact : ∀ (res : QRes),
              TimeOK (book d (finish d c cl (.answer2 t1 d.idx res))) ⟨c, cl.op, cl.inv, d.now, .answer2 t1 d.idx res⟩ := by
            intro res
            refine ⟨by show cl.inv ≤ d.now; omega, by show d.now < d.now + 1; omega, ?_⟩
            simp only []
            rw [cmtAt_book_old d _ hl _ k1, cmtAt_book_new d _ hl, k2]
            exact ⟨k3, k4, h.idx_le⟩
          cases getAt d.log d.idx atTx tk with
          | none =>
            simp only []
            apply fin
            refine ⟨tfact _, ?_⟩
            unfold ResOK; simp only [hop]; exact hidxlog
          | some tv =>
            simp only []
            apply fin
            refine ⟨tfact _, ?_⟩
            unfold ResOK; simp only [hop]; exact hidxlog
      | rSnap c0 t todo acc =>
        unfold ClOK at hclok
        rw [hp] at hclok
        simp only [] at hclok
        obtain ⟨k1, k2, k3, k4, k5, ks, hopq, hacc⟩ := hclok
        cases todo with
        | cons k rest =>
          -- one more key looked up — in the SNAPSHOT (`getAllSrc_snap`), whatever has been committed / indexed meanwhile
          simp only [dbStepCore, hc, hp, hopq]
          apply dinv_set cfg d (setClient d c { phase := .rSnap c0 t rest (getAllLookup d.log (getAllSrc t d.idx) k acc), op := .read (.getAll ks), inv := cl.inv }) h
            ⟨rfl, rfl, ⟨[], by simp [setClient]⟩, Nat.le_refl _, Nat.le_refl _⟩ h.idx_le hhe h.cm_le
            c cl _ hc rfl
          · unfold ClOK; simp only []
            refine ⟨by show cl.inv < d.now + 1; omega, by rw [cmtAt_book_old d _ hl _ k1]; exact k2, k3, k4, k5, ks, rfl, ?_⟩
            show getAllLookup d.log (getAllSrc t d.idx) k acc ++ getAllEntries d.log t rest = getAllEntries d.log t ks
            rw [getAllSrc_snap, getAllLookup_step]; exact hacc
          · exact fun _ hr => Or.inl hr
        | nil =>
          -- the loop is over: the collected entries are returned; they are the one-view answer at the snapshot's ts
          simp only [dbStepCore, hc, hp, hopq]
          apply fin
          refine ⟨⟨by show cl.inv ≤ d.now; omega, by show d.now < d.now + 1; omega, ?_⟩, ?_⟩
          · simp only []
            rw [cmtAt_book_old d _ hl _ k1, cmtAt_book_new d _ hl, k2]
            exact ⟨k3, by show t ≤ d.committed; have := h.idx_le; omega⟩
          · unfold ResOK
            simp only [hopq]
            refine ⟨k5, ?_⟩
            simp only [evalQuery]
            rw [← hacc]; simp [getAllEntries]
      | idle => simp only [dbStepCore, hc, hp]; exact dinv_noop cfg d h
      | wInvoked => simp only [dbStepCore, hc, hp]; exact dinv_noop cfg d h
      | wPre id => simp only [dbStepCore, hc, hp]; exact dinv_noop cfg d h


theorem dinv_init (cfg : Cfg) (n : Nat) : DInv cfg (dbInit n) := by
  refine ⟨Nat.le_refl _, rfl, Nat.le_refl _, rfl, ?_, ?_, ?_, ?_⟩
  · intro i j _ hj; simp [dbInit] at hj
  · intro i hi; simp [dbInit] at hi
  · intro c cl hc
    simp only [dbInit] at hc
    have : cl ∈ List.replicate n ({} : Client) := List.mem_of_getElem? hc
    rw [List.mem_replicate] at this
    rw [this.2]
    unfold ClOK; trivial
  · intro r hr; simp [dbInit] at hr

theorem dinv_run (cfg : Cfg) : ∀ (sched : List DbStep) (d : Db), noCompact sched → DInv cfg d → DInv cfg (dbRun cfg d sched) := by
  intro sched
  induction sched with
  | nil => intro d _ h; exact h
  | cons s rest ih =>
    intro d hnc h
    unfold dbRun
    simp only [List.foldl_cons]
    exact ih _ (fun x hx n => hnc x (by simp [hx]) n) (dinv_step cfg d s (fun n => hnc s (by simp) n) h)

theorem resultOK_of_ResOK {cfg : Cfg} {log : Log} {r : OpRec} (h : ResOK cfg log r)
    (hn : ∀ a b q, r.out ≠ .answer2 a b q) : resultOK cfg log r := by
  unfold ResOK at h
  unfold resultOK
  split at h
  · rename_i ws pre id ho hout
    simp only [ho, hout]
    exact ⟨h.2.2.1, h.1, h.2.2.2⟩
  · rename_i ws pre v ho hout
    simp only [ho, hout]
    exact h.2
  · rename_i q v res ho hout
    simp only [ho, hout]
    exact h.2
  · rename_i q v1 v res ho hout
    exact absurd hout (hn _ _ _)
  · rename_i q ho hout
    simp only [ho, hout]
  · exact absurd h id

/-- versions against the committed frontier at the invocation / response steps. -/
theorem version_bounds {d : Db} {r : OpRec} (h : TimeOK d r) (hf : r.out ≠ .failed) :
    (r.out.isWrite = true → cmtAt d r.inv < r.out.version) ∧
    (r.out.isWrite = false → cmtAt d r.inv ≤ r.out.version) ∧
    r.out.version ≤ cmtAt d r.resp := by
  obtain ⟨_, _, h3⟩ := h
  cases hout : r.out with
  | applied id => rw [hout] at h3; simp [Outcome.isWrite, Outcome.version]; exact h3
  | rejected v => rw [hout] at h3; simp [Outcome.isWrite, Outcome.version]; exact h3
  | answer v res => rw [hout] at h3; simp [Outcome.isWrite, Outcome.version]; exact h3
  | answer2 v1 v2 res =>
    rw [hout] at h3; simp [Outcome.isWrite, Outcome.version]
    simp only [] at h3
    exact ⟨by omega, h3.2.2⟩
  | failed => exact absurd hout hf

theorem orderOK_of_inv (cfg : Cfg) (d : Db) (h : DInv cfg d) (a b : OpRec) (ha : a ∈ d.hist) (hb : b ∈ d.hist) :
    orderOK a b := by
  intro hlt hfa hfb
  have ta := (h.hist a ha).1
  have tb := (h.hist b hb).1
  obtain ⟨a1, a2, a3⟩ := version_bounds ta hfa
  obtain ⟨b1, b2, b3⟩ := version_bounds tb hfb
  have hmono : cmtAt d a.resp ≤ cmtAt d b.inv := h.cmt_mono _ _ (by omega) (by have := tb.1; have := tb.2.1; omega)
  cases hwa : a.out.isWrite <;> cases hwb : b.out.isWrite <;> simp only []
  · have := b2 hwb; omega
  · have := b1 hwb; omega
  · have := b2 hwb; omega
  · have := b1 hwb; omega

theorem cmtAt_getElem (d : Db) (i : Nat) (hi : i < d.cmt.length) : d.cmt[i] = cmtAt d i := by
  unfold cmtAt List.getD
  rw [List.getElem?_eq_getElem hi]; rfl

theorem firstReach_gt (cfg : Cfg) (d : Db) (h : DInv cfg d) (i v : Nat) (hi : i < d.now) (hv : cmtAt d i < v) :
    i < firstReach d.cmt v := by
  unfold firstReach
  apply List.lt_findIdx_of_not (by rw [h.cmt_len]; exact hi)
  intro j hj
  rw [cmtAt_getElem d j (by rw [h.cmt_len]; omega)]
  have := h.cmt_mono j i hj hi
  simp only [decide_eq_true_eq]
  omega

theorem firstReach_le (cfg : Cfg) (d : Db) (h : DInv cfg d) (i v : Nat) (hi : i < d.now) (hv : v ≤ cmtAt d i) :
    firstReach d.cmt v ≤ i := by
  unfold firstReach
  apply Decidable.byContradiction
  intro hn
  have hlt : i < d.cmt.findIdx (fun c => decide (v ≤ c)) := by omega
  have := List.not_of_lt_findIdx hlt
  rw [cmtAt_getElem d i (by rw [h.cmt_len]; exact hi)] at this
  simp at this
  omega

theorem linPoint_in_interval (cfg : Cfg) (d : Db) (h : DInv cfg d) (r : OpRec) (hr : r ∈ d.hist) :
    r.inv ≤ linPoint d.cmt r ∧ linPoint d.cmt r ≤ r.resp := by
  obtain ⟨h1, h2, h3⟩ := (h.hist r hr).1
  unfold linPoint
  cases hout : r.out with
  | applied id =>
    rw [hout] at h3; simp only [] at h3 ⊢
    exact ⟨Nat.le_of_lt (firstReach_gt cfg d h _ _ (by omega) h3.1), firstReach_le cfg d h _ _ h2 h3.2⟩
  | rejected v => simp only []; exact ⟨h1, Nat.le_refl _⟩
  | answer v res =>
    rw [hout] at h3; simp only [] at h3 ⊢
    exact ⟨Nat.le_max_left _ _, Nat.max_le.mpr ⟨h1, firstReach_le cfg d h _ _ h2 h3.2⟩⟩
  | answer2 v1 v2 res =>
    rw [hout] at h3; simp only [] at h3 ⊢
    exact ⟨Nat.le_max_left _ _, Nat.max_le.mpr ⟨h1, firstReach_le cfg d h _ _ h2 h3.2.2⟩⟩
  | failed => simp only []; exact ⟨h1, Nat.le_refl _⟩

theorem read_sees_of_inv (cfg : Cfg) (d : Db) (h : DInv cfg d) (w r : OpRec) (hw : w ∈ d.hist) (hr : r ∈ d.hist)
    (id : Nat) (hwo : w.out = .applied id) (hro : r.out.isWrite = false) (hrf : r.out ≠ .failed) (hlt : w.resp < r.inv) :
    id ≤ r.out.version ∧ (∀ v1 v2 q, r.out = .answer2 v1 v2 q → id ≤ v1) := by
  have tw := (h.hist w hw).1
  have tr := (h.hist r hr).1
  have hmono : cmtAt d w.resp ≤ cmtAt d r.inv := h.cmt_mono _ _ (by omega) (by have := tr.1; have := tr.2.1; omega)
  have hw3 := tw.2.2
  rw [hwo] at hw3
  simp only [] at hw3
  refine ⟨?_, ?_⟩
  · have := (version_bounds tr hrf).2.1 hro
    omega
  · intro v1 v2 q hq
    have hr3 := tr.2.2
    rw [hq] at hr3
    simp only [] at hr3
    omega

end ImmuModel.Mvcc.LinAux
