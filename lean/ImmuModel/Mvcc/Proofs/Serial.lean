/-
C05 helper proofs: the simulation argument behind `serializable_partial`.
A transaction that passes `checkPreconditions` on the log `L` (and satisfies the side conditions of
`Mvcc/Spec.lean`) has produced, call by call, the results of the same program run alone on `L`.
-/
import ImmuModel.Mvcc.Proofs.Validation

namespace ImmuModel.Mvcc.SerialAux
open ImmuModel ImmuModel.Mvcc ImmuModel.Mvcc.ViewLemmas ImmuModel.Mvcc.ValidationAux

/-! ## relations between the concurrent transaction and its solo twin -/

def RelB (a b : TxSt) : Prop :=
  a.own = b.own ∧ a.trace = b.trace ∧ a.snaps.map (·.pfx) = b.snaps.map (·.pfx)

def Validates (cfg : Cfg) (L : Log) (tx : TxSt) : Prop :=
  ∀ s ∈ tx.snaps, s.base = L.length ∨ valSnap cfg (viewGet L L.length) tx.rs s.pfx = true

def Fresh (L : Log) (tx : TxSt) : Prop := ∀ s ∈ tx.snaps, s.base = L.length
def Bounded (n : Nat) (tx : TxSt) : Prop := ∀ s ∈ tx.snaps, s.base ≤ n

/-! ## snapshots -/

theorem heldSnap_mem {snaps : List Snap} {key : Bytes} {s : Snap} (h : heldSnap snaps key = some s) :
    s ∈ snaps ∧ hasPrefix key s.pfx = true := by
  unfold heldSnap at h
  exact ⟨List.mem_of_find?_eq_some h, by simpa using List.find?_some h⟩

theorem heldSnap_map : ∀ (a b : List Snap) (key : Bytes), a.map (·.pfx) = b.map (·.pfx) →
    (heldSnap a key).map (·.pfx) = (heldSnap b key).map (·.pfx) := by
  intro a
  induction a with
  | nil => intro b key h; cases b <;> simp_all [heldSnap]
  | cons x xs ih =>
    intro b key h
    cases b with
    | nil => simp at h
    | cons y ys =>
      simp only [List.map_cons, List.cons.injEq] at h
      have := ih ys key h.2
      unfold heldSnap at this ⊢
      simp only [List.find?_cons, h.1]
      split
      · simp [h.1]
      · exact this

theorem snapOf_fst_mem (tx : TxSt) (key pfx : Bytes) (nb : Nat) :
    (snapOf tx key pfx nb).1 ∈ (snapOf tx key pfx nb).2 := by
  unfold snapOf
  split
  · rename_i s hs; exact (heldSnap_mem hs).1
  · simp

theorem snapOf_fst_prefix (tx : TxSt) (key pfx : Bytes) (nb : Nat) (hp : hasPrefix key pfx = true) :
    hasPrefix key (snapOf tx key pfx nb).1.pfx = true := by
  unfold snapOf
  split
  · rename_i s hs; exact (heldSnap_mem hs).2
  · exact hp

theorem snapOf_fst_cases (tx : TxSt) (key pfx : Bytes) (nb : Nat) :
    (snapOf tx key pfx nb).1 ∈ tx.snaps ∨ (snapOf tx key pfx nb).1 = ⟨pfx, nb, false⟩ := by
  unfold snapOf
  split
  · rename_i s hs; exact Or.inl (heldSnap_mem hs).1
  · exact Or.inr rfl

theorem snapOf_snd_cases (tx : TxSt) (key pfx : Bytes) (nb : Nat) :
    (snapOf tx key pfx nb).2 = tx.snaps ∨ (snapOf tx key pfx nb).2 = tx.snaps ++ [⟨pfx, nb, false⟩] := by
  unfold snapOf
  split
  · exact Or.inl rfl
  · exact Or.inr rfl

theorem snapOf_snd_map (a b : TxSt) (key pfx : Bytes) (na nb : Nat) (h : a.snaps.map (·.pfx) = b.snaps.map (·.pfx)) :
    (snapOf a key pfx na).2.map (·.pfx) = (snapOf b key pfx nb).2.map (·.pfx) := by
  have hm := heldSnap_map a.snaps b.snaps key h
  unfold snapOf
  cases ha : heldSnap a.snaps key with
  | some s =>
    cases hb : heldSnap b.snaps key with
    | some t => simpa using h
    | none => simp [ha, hb] at hm
  | none =>
    cases hb : heldSnap b.snaps key with
    | some t => simp [ha, hb] at hm
    | none => simp [h]

theorem snapOf_bounded (tx : TxSt) (key pfx : Bytes) (nb n : Nat) (hb : Bounded n tx) (hn : nb ≤ n) :
    (∀ s ∈ (snapOf tx key pfx nb).2, s.base ≤ n) := by
  intro s hs
  rcases snapOf_snd_cases tx key pfx nb with h | h
  · rw [h] at hs; exact hb s hs
  · rw [h] at hs
    simp only [List.mem_append, List.mem_singleton] at hs
    rcases hs with hs | hs
    · exact hb s hs
    · subst hs; exact hn

theorem snapOf_fresh (tx : TxSt) (key pfx : Bytes) (n : Nat) (hf : ∀ s ∈ tx.snaps, s.base = n) :
    (∀ s ∈ (snapOf tx key pfx n).2, s.base = n) := by
  intro s hs
  rcases snapOf_snd_cases tx key pfx n with h | h
  · rw [h] at hs; exact hf s hs
  · rw [h] at hs
    simp only [List.mem_append, List.mem_singleton] at hs
    rcases hs with hs | hs
    · exact hf s hs
    · subst hs; rfl

theorem markWrote_map (snaps : List Snap) (key : Bytes) :
    (markWrote snaps key).map (·.pfx) = snaps.map (·.pfx) := by
  induction snaps with
  | nil => rfl
  | cons s rest ih =>
    simp only [markWrote]
    split
    · simp
    · simp [ih]

theorem markWrote_base (snaps : List Snap) (key : Bytes) (P : Nat → Prop) (h : ∀ s ∈ snaps, P s.base) :
    ∀ s ∈ markWrote snaps key, P s.base := by
  induction snaps with
  | nil => intro s hs; simp [markWrote] at hs
  | cons x rest ih =>
    intro s hs
    have hx : P x.base := h x (by simp)
    have hrest : ∀ s ∈ rest, P s.base := fun s hs => h s (by simp [hs])
    simp only [markWrote] at hs
    split at hs
    · simp only [List.mem_cons] at hs
      rcases hs with hs | hs
      · rw [hs]; exact hx
      · exact hrest s hs
    · simp only [List.mem_cons] at hs
      rcases hs with hs | hs
      · rw [hs]; exact hx
      · exact ih hrest s hs

/-- a snapshot survives `markWrote` up to its `wrote` flag. -/
theorem markWrote_mem (snaps : List Snap) (key : Bytes) (s : Snap) (hs : s ∈ snaps) :
    ∃ s' ∈ markWrote snaps key, s'.pfx = s.pfx ∧ s'.base = s.base := by
  induction snaps with
  | nil => simp at hs
  | cons x rest ih =>
    simp only [markWrote]
    simp only [List.mem_cons] at hs
    split
    · rcases hs with hs | hs
      · subst hs; exact ⟨{ s with wrote := true }, by simp, rfl, rfl⟩
      · exact ⟨s, by simp [hs], rfl, rfl⟩
    · rcases hs with hs | hs
      · subst hs; exact ⟨s, by simp, rfl, rfl⟩
      · obtain ⟨s', hs', h1, h2⟩ := ih hs
        exact ⟨s', by simp [hs'], h1, h2⟩


/-! ## what `valSnap` gives for one recorded entry -/

theorem valSnap_get {cfg : Cfg} {look : Bytes → Option Ver} {rs : ReadSet} {pfx : Bytes}
    (h : valSnap cfg look rs pfx = true) {e : ExpGet} (he : e ∈ rs.gets) (hp : hasPrefix e.key pfx = true) :
    valGet look e = true := by
  unfold valSnap at h
  simp only [Bool.and_eq_true, List.all_eq_true] at h
  have := h.1.1.1 e he
  simpa [hp] using this

theorem valSnap_pget {cfg : Cfg} {look : Bytes → Option Ver} {rs : ReadSet} {pfx : Bytes}
    (h : valSnap cfg look rs pfx = true) {e : ExpPGet} (he : e ∈ rs.pgets) (hp : hasPrefix e.pfx pfx = true) :
    valPGet cfg.U look e = true := by
  unfold valSnap at h
  simp only [Bool.and_eq_true, List.all_eq_true] at h
  have := h.1.1.2 e he
  simpa [hp] using this

theorem valSnap_reader {cfg : Cfg} {look : Bytes → Option Ver} {rs : ReadSet} {pfx : Bytes}
    (h : valSnap cfg look rs pfx = true) {e : ExpReader} (he : e ∈ rs.readers) (hp : hasPrefix e.spec.pfx pfx = true) :
    valReader cfg look e = true := by
  unfold valSnap at h
  simp only [Bool.and_eq_true, List.all_eq_true] at h
  have := h.1.2 e he
  simpa [hp] using this

/-! ## views are stable under log extension -/

theorem viewGet_ext (l ext : Log) (b : Nat) (hb : b ≤ l.length) : viewGet (l ++ ext) b = viewGet l b :=
  funext fun k => viewGet_append l ext k b hb

theorem txLook_ext (l ext : Log) (b : Nat) (hb : b ≤ l.length) (own : WriteSet) :
    txLook (l ++ ext) b own = txLook l b own := by
  funext k; simp [txLook, viewGet_append l ext k b hb]

theorem rawLook_ext (l ext : Log) (b : Nat) (hb : b ≤ l.length) (own : WriteSet) :
    rawLook (l ++ ext) b own = rawLook l b own := by
  funext k; simp [rawLook, viewGet_append l ext k b hb]

/-! ## one API call: concurrent (on `l`, stale snapshots) vs solo (on `L = l ++ ext`, fresh snapshots) -/

def SimOut (n : Nat) (L : Log) (c s : TxSt × Res) : Prop :=
  c.2 = s.2 ∧ RelB c.1 s.1 ∧ Bounded n c.1 ∧ Fresh L s.1

theorem execGet_notown (log : Log) (tx : TxSt) (pfx : Bytes) (nb : Nat) (k : Bytes) (ign : Bool)
    (ho : wsGet tx.own k = none) :
    execGet log tx pfx nb k ign =
      ({ tx with snaps := (snapOf tx k pfx nb).2,
                 rs := { tx.rs with gets := tx.rs.gets ++
                   [⟨k, ign, ((getF (viewGet log (snapOf tx k pfx nb).1.base) k ign).map (·.tx)).getD 0⟩] } },
       match getF (viewGet log (snapOf tx k pfx nb).1.base) k ign with
       | none => Res.notFound
       | some v => Res.found k v) := by
  unfold execGet
  simp only [ho]
  cases getF (viewGet log (snapOf tx k pfx nb).1.base) k ign <;> rfl

theorem get_sim (cfg : Cfg) (l ext : Log) (txc txs : TxSt) (pfx : Bytes) (nb : Nat) (k : Bytes) (ign : Bool)
    (hp : hasPrefix k pfx = true) (hnb : nb ≤ l.length)
    (hrel : RelB txc txs) (hbd : Bounded l.length txc) (hfr : Fresh (l ++ ext) txs)
    (hval : Validates cfg (l ++ ext) (execGet l txc pfx nb k ign).1) :
    SimOut l.length (l ++ ext) (execGet l txc pfx nb k ign) (execGet (l ++ ext) txs pfx (l ++ ext).length k ign) := by
  obtain ⟨hown, htr, hsn⟩ := hrel
  have hmap := snapOf_snd_map txc txs k pfx nb (l ++ ext).length hsn
  have hbd' := snapOf_bounded txc k pfx nb l.length hbd hnb
  have hfr' := snapOf_fresh txs k pfx (l ++ ext).length hfr
  cases ho : wsGet txc.own k with
  | some e =>
    have ho' : wsGet txs.own k = some e := by rw [← hown]; exact ho
    unfold execGet
    simp only [ho, ho']
    exact ⟨rfl, ⟨hown, htr, hmap⟩, hbd', hfr'⟩
  | none =>
    have ho' : wsGet txs.own k = none := by rw [← hown]; exact ho
    rw [execGet_notown l txc pfx nb k ign ho] at hval ⊢
    rw [execGet_notown (l ++ ext) txs pfx _ k ign ho']
    -- the solo snapshot is fresh
    have hsb : (snapOf txs k pfx (l ++ ext).length).1.base = (l ++ ext).length :=
      hfr' _ (snapOf_fst_mem txs k pfx _)
    have hcb : (snapOf txc k pfx nb).1.base ≤ l.length := hbd' _ (snapOf_fst_mem txc k pfx nb)
    have hg : getF (viewGet (l ++ ext) (l ++ ext).length) k ign
        = getF (viewGet l (snapOf txc k pfx nb).1.base) k ign := by
      rw [← viewGet_ext l ext _ hcb]
      rcases hval _ (snapOf_fst_mem txc k pfx nb) with hb | hv
      · rw [hb]
      · apply validation_sound_get
        have hpre := snapOf_fst_prefix txc k pfx nb hp
        have := valSnap_get hv (e := ⟨k, ign, ((getF (viewGet l (snapOf txc k pfx nb).1.base) k ign).map (·.tx)).getD 0⟩)
          (by simp) hpre
        rw [viewGet_ext l ext _ hcb]
        exact this
    rw [hsb, hg]
    exact ⟨rfl, ⟨hown, htr, hmap⟩, hbd', hfr'⟩


def pgetRes (r : Option (Bytes × Ver)) : Res :=
  match r with
  | none => Res.notFound
  | some (k, v) => Res.found k v

theorem execPGet_norm (cfg : Cfg) (log : Log) (tx : TxSt) (pfx : Bytes) (nb : Nat) (p neq : Bytes) (ign : Bool)
    (hno : ∀ k v, pgetF cfg.U (rawLook log (snapOf tx p pfx nb).1.base tx.own) p neq ign = some (k, v) → v.tx ≠ 0) :
    execPGet cfg log tx pfx nb p neq ign =
      ({ tx with snaps := (snapOf tx p pfx nb).2,
                 rs := { tx.rs with pgets := tx.rs.pgets ++
                   [⟨p, neq, ign,
                     ((pgetF cfg.U (rawLook log (snapOf tx p pfx nb).1.base tx.own) p neq ign).map (·.1)).getD [],
                     ((pgetF cfg.U (rawLook log (snapOf tx p pfx nb).1.base tx.own) p neq ign).map (·.2.tx)).getD 0⟩] } },
       pgetRes (pgetF cfg.U (rawLook log (snapOf tx p pfx nb).1.base tx.own) p neq ign)) := by
  unfold execPGet
  simp only []
  cases hr : pgetF cfg.U (rawLook log (snapOf tx p pfx nb).1.base tx.own) p neq ign with
  | none => simp [pgetRes]
  | some kv =>
    obtain ⟨k, v⟩ := kv
    have hv : (v.tx == 0) = false := by
      have := hno k v hr
      simpa using this
    simp [hv, pgetRes]

/-- when the call was answered by an own write the recorded result says so. -/
theorem execPGet_own_result (cfg : Cfg) (log : Log) (tx : TxSt) (pfx : Bytes) (nb : Nat) (p neq : Bytes) (ign : Bool)
    (k : Bytes) (v : Ver)
    (hr : pgetF cfg.U (rawLook log (snapOf tx p pfx nb).1.base tx.own) p neq ign = some (k, v)) (hv : v.tx = 0) :
    ∃ w, (execPGet cfg log tx pfx nb p neq ign).2 = Res.found k w ∧ w.tx = 0 := by
  unfold execPGet
  simp only [hr]
  have : (v.tx == 0) = true := by simp [hv]
  simp only [this, ↓reduceIte]
  cases wsGet tx.own k with
  | none => exact ⟨v, rfl, hv⟩
  | some e => exact ⟨⟨0, e.val, e.del⟩, rfl, rfl⟩

theorem pget_sim (cfg : Cfg) (hU : cfg.U.Nodup) (l ext : Log) (txc txs : TxSt) (pfx : Bytes) (nb : Nat) (p neq : Bytes) (ign : Bool)
    (hp : hasPrefix p pfx = true) (hnb : nb ≤ l.length)
    (hrel : RelB txc txs) (hbd : Bounded l.length txc) (hfr : Fresh (l ++ ext) txs)
    (hval : Validates cfg (l ++ ext) (execPGet cfg l txc pfx nb p neq ign).1)
    (hown : ∀ k v, (execPGet cfg l txc pfx nb p neq ign).2 = Res.found k v → v.tx ≠ 0) :
    SimOut l.length (l ++ ext) (execPGet cfg l txc pfx nb p neq ign)
      (execPGet cfg (l ++ ext) txs pfx (l ++ ext).length p neq ign) := by
  obtain ⟨ho, htr, hsn⟩ := hrel
  have hmap := snapOf_snd_map txc txs p pfx nb (l ++ ext).length hsn
  have hbd' := snapOf_bounded txc p pfx nb l.length hbd hnb
  have hfr' := snapOf_fresh txs p pfx (l ++ ext).length hfr
  have hsb : (snapOf txs p pfx (l ++ ext).length).1.base = (l ++ ext).length :=
    hfr' _ (snapOf_fst_mem txs p pfx _)
  have hcb : (snapOf txc p pfx nb).1.base ≤ l.length := hbd' _ (snapOf_fst_mem txc p pfx nb)
  have hno : ∀ k v, pgetF cfg.U (rawLook l (snapOf txc p pfx nb).1.base txc.own) p neq ign = some (k, v) → v.tx ≠ 0 := by
    intro k v hr hv
    obtain ⟨w, hw, hw0⟩ := execPGet_own_result cfg l txc pfx nb p neq ign k v hr hv
    exact hown k w hw hw0
  rw [execPGet_norm cfg l txc pfx nb p neq ign hno] at hval ⊢
  -- the solo call reads the same first key
  have hg : pgetF cfg.U (rawLook (l ++ ext) (l ++ ext).length txs.own) p neq ign
      = pgetF cfg.U (rawLook l (snapOf txc p pfx nb).1.base txc.own) p neq ign := by
    rw [← ho, ← rawLook_ext l ext _ hcb]
    rcases hval _ (snapOf_fst_mem txc p pfx nb) with hb | hv
    · rw [hb]
    · have hpre := snapOf_fst_prefix txc p pfx nb hp
      have hv' := valSnap_pget hv (e := ⟨p, neq, ign,
          ((pgetF cfg.U (rawLook l (snapOf txc p pfx nb).1.base txc.own) p neq ign).map (·.1)).getD [],
          ((pgetF cfg.U (rawLook l (snapOf txc p pfx nb).1.base txc.own) p neq ign).map (·.2.tx)).getD 0⟩)
        (by simp) hpre
      apply validation_sound_pget cfg.U hU (l ++ ext) _ _ (by rw [List.length_append]; omega) txc.own p neq ign _ rfl
      · intro k v hr
        rw [rawLook_ext l ext _ hcb] at hr
        exact hno k v hr
      · rw [rawLook_ext l ext _ hcb]
        exact hv'
  have hno' : ∀ k v, pgetF cfg.U (rawLook (l ++ ext) (snapOf txs p pfx (l ++ ext).length).1.base txs.own) p neq ign = some (k, v) → v.tx ≠ 0 := by
    intro k v hr
    rw [hsb, hg] at hr
    exact hno k v hr
  rw [execPGet_norm cfg (l ++ ext) txs pfx _ p neq ign hno']
  rw [hsb, hg]
  exact ⟨rfl, ⟨ho, htr, hmap⟩, hbd', hfr'⟩


theorem scan_sim (cfg : Cfg) (hU : cfg.U.Nodup) (l ext : Log) (txc txs : TxSt) (pfx : Bytes) (nb : Nat)
    (spec : ScanSpec) (segs : List Nat)
    (hp : hasPrefix spec.pfx pfx = true) (hnb : nb ≤ l.length)
    (hrel : RelB txc txs) (hbd : Bounded l.length txc) (hfr : Fresh (l ++ ext) txs)
    (hval : Validates cfg (l ++ ext) (execScan cfg l txc pfx nb spec segs).1)
    (htail : noOwnTail (execScan cfg l txc pfx nb spec segs).1.rs = true) :
    SimOut l.length (l ++ ext) (execScan cfg l txc pfx nb spec segs)
      (execScan cfg (l ++ ext) txs pfx (l ++ ext).length spec segs) := by
  obtain ⟨ho, htr, hsn⟩ := hrel
  have hmap := snapOf_snd_map txc txs spec.pfx pfx nb (l ++ ext).length hsn
  have hbd' := snapOf_bounded txc spec.pfx pfx nb l.length hbd hnb
  have hfr' := snapOf_fresh txs spec.pfx pfx (l ++ ext).length hfr
  have hsb : (snapOf txs spec.pfx pfx (l ++ ext).length).1.base = (l ++ ext).length :=
    hfr' _ (snapOf_fst_mem txs spec.pfx pfx _)
  have hcb : (snapOf txc spec.pfx pfx nb).1.base ≤ l.length := hbd' _ (snapOf_fst_mem txc spec.pfx pfx nb)
  unfold execScan at hval htail ⊢
  simp only [] at hval htail ⊢
  have hg : readSegs spec.ignDel spec.offset
        (rawScan cfg.U cfg.maxKey spec (txLook (l ++ ext) (l ++ ext).length txs.own)) segs 0
      = readSegs spec.ignDel spec.offset
        (rawScan cfg.U cfg.maxKey spec (txLook l (snapOf txc spec.pfx pfx nb).1.base txc.own)) segs 0 := by
    rw [← ho, ← txLook_ext l ext _ hcb]
    rcases hval _ (snapOf_fst_mem txc spec.pfx pfx nb) with hb | hv
    · rw [hb]
    · have hpre := snapOf_fst_prefix txc spec.pfx pfx nb hp
      have hv' := valSnap_reader hv (e := ⟨spec, (readSegs spec.ignDel spec.offset
          (rawScan cfg.U cfg.maxKey spec (txLook l (snapOf txc spec.pfx pfx nb).1.base txc.own)) segs 0).2⟩)
        (by simp) hpre
      apply validation_sound_scan cfg hU (l ++ ext) _ _ txc.own spec segs
      · rw [txLook_ext l ext _ hcb]; exact hv'
      · rw [txLook_ext l ext _ hcb]
        unfold noOwnTail at htail
        simp only [List.all_append, List.all_cons, List.all_nil, Bool.and_true, Bool.and_eq_true] at htail
        exact htail.2
  rw [hsb, hg]
  exact ⟨rfl, ⟨ho, htr, hmap⟩, hbd', hfr'⟩

theorem mark_sim (cfg : Cfg) (l ext : Log) (txc txs : TxSt) (pfx : Bytes) (nb : Nat) (spec : ScanSpec)
    (hnb : nb ≤ l.length)
    (hrel : RelB txc txs) (hbd : Bounded l.length txc) (hfr : Fresh (l ++ ext) txs) :
    SimOut l.length (l ++ ext) (execMark cfg l txc pfx nb spec)
      (execMark cfg (l ++ ext) txs pfx (l ++ ext).length spec) := by
  obtain ⟨ho, htr, hsn⟩ := hrel
  have hmap := snapOf_snd_map txc txs spec.pfx pfx nb (l ++ ext).length hsn
  have hbd' := snapOf_bounded txc spec.pfx pfx nb l.length hbd hnb
  have hfr' := snapOf_fresh txs spec.pfx pfx (l ++ ext).length hfr
  unfold execMark
  exact ⟨rfl, ⟨ho, htr, hmap⟩, hbd', hfr'⟩

theorem set_sim (l ext : Log) (txc txs : TxSt) (pfx : Bytes) (nb : Nat) (e : Entry)
    (hnb : nb ≤ l.length)
    (hrel : RelB txc txs) (hbd : Bounded l.length txc) (hfr : Fresh (l ++ ext) txs) :
    RelB (execSet txc pfx nb e) (execSet txs pfx (l ++ ext).length e) ∧
    Bounded l.length (execSet txc pfx nb e) ∧ Fresh (l ++ ext) (execSet txs pfx (l ++ ext).length e) := by
  obtain ⟨ho, htr, hsn⟩ := hrel
  have hmap := snapOf_snd_map txc txs e.key pfx nb (l ++ ext).length hsn
  have hbd' := snapOf_bounded txc e.key pfx nb l.length hbd hnb
  have hfr' := snapOf_fresh txs e.key pfx (l ++ ext).length hfr
  unfold execSet
  refine ⟨⟨?_, htr, ?_⟩, ?_, ?_⟩
  · simp [ho]
  · simp only [markWrote_map]; exact hmap
  · exact markWrote_base _ _ (fun b => b ≤ l.length) hbd'
  · exact markWrote_base _ _ (fun b => b = (l ++ ext).length) hfr'


theorem snapOf_snd_super (tx : TxSt) (key pfx : Bytes) (nb : Nat) : ∀ s ∈ tx.snaps, s ∈ (snapOf tx key pfx nb).2 := by
  intro s hs
  rcases snapOf_snd_cases tx key pfx nb with h | h
  · rw [h]; exact hs
  · rw [h]; simp [hs]

theorem validates_of_execSet (cfg : Cfg) (L : Log) (tx : TxSt) (pfx : Bytes) (nb : Nat) (e : Entry)
    (h : Validates cfg L (execSet tx pfx nb e)) : Validates cfg L tx := by
  intro s hs
  have hs2 := snapOf_snd_super tx e.key pfx nb s hs
  obtain ⟨s', hs', h1, h2⟩ := markWrote_mem _ e.key s hs2
  have := h s' (by unfold execSet; exact hs')
  unfold execSet at this
  simp only [] at this
  rw [h1, h2] at this
  exact this

def delOut (g : TxSt × Res) (pfx : Bytes) (nb : Nat) (k : Bytes) : TxSt × Res :=
  match g.2 with
  | .found _ v => if v.del then (g.1, Res.notFound) else (execSet g.1 pfx nb ⟨k, [], true⟩, Res.ok)
  | _ => (g.1, Res.notFound)

theorem execOp_delete (cfg : Cfg) (log : Log) (tx : TxSt) (pfx : Bytes) (nb : Nat) (k : Bytes) :
    execOp cfg log tx pfx nb (.delete k) = delOut (execGet log tx pfx nb k true) pfx nb k := by
  simp only [execOp, delOut]
  generalize execGet log tx pfx nb k true = g
  obtain ⟨tx1, r⟩ := g
  cases r <;> rfl

theorem delete_sim (cfg : Cfg) (l ext : Log) (txc txs : TxSt) (pfx : Bytes) (nb : Nat) (k : Bytes)
    (hp : hasPrefix k pfx = true) (hnb : nb ≤ l.length)
    (hrel : RelB txc txs) (hbd : Bounded l.length txc) (hfr : Fresh (l ++ ext) txs)
    (hval : Validates cfg (l ++ ext) (execOp cfg l txc pfx nb (.delete k)).1) :
    SimOut l.length (l ++ ext) (execOp cfg l txc pfx nb (.delete k))
      (execOp cfg (l ++ ext) txs pfx (l ++ ext).length (.delete k)) := by
  rw [execOp_delete] at hval ⊢
  rw [execOp_delete]
  -- validity of the state after the embedded Get
  have hvalG : Validates cfg (l ++ ext) (execGet l txc pfx nb k true).1 := by
    unfold delOut at hval
    split at hval
    · rename_i kk v hv
      by_cases hd : v.del = true
      · simpa [hd] using hval
      · have hd' : v.del = false := by simpa using hd
        simp only [hd'] at hval
        exact validates_of_execSet cfg _ _ pfx nb _ hval
    · exact hval
  obtain ⟨hres, hrel1, hbd1, hfr1⟩ := get_sim cfg l ext txc txs pfx nb k true hp hnb hrel hbd hfr hvalG
  unfold delOut
  rw [← hres]
  split
  · rename_i kk v hv
    by_cases hd : v.del = true
    · simp only [hd, ↓reduceIte]
      exact ⟨rfl, hrel1, hbd1, hfr1⟩
    · have hd' : v.del = false := by simpa using hd
      simp only [hd']
      obtain ⟨h1, h2, h3⟩ := set_sim l ext _ _ pfx nb ⟨k, [], true⟩ hnb hrel1 hbd1 hfr1
      exact ⟨rfl, h1, h2, h3⟩
  · exact ⟨rfl, hrel1, hbd1, hfr1⟩


/-! ## a call only extends the snapshot list and the read-set -/

def Ext (a b : TxSt) : Prop :=
  (∀ s ∈ a.snaps, ∃ s' ∈ b.snaps, s'.pfx = s.pfx ∧ s'.base = s.base) ∧
  (∃ g, b.rs.gets = a.rs.gets ++ g) ∧ (∃ g, b.rs.pgets = a.rs.pgets ++ g) ∧
  (∃ g, b.rs.readers = a.rs.readers ++ g) ∧ (∃ g, b.rs.fps = a.rs.fps ++ g)

theorem Ext.refl (a : TxSt) : Ext a a :=
  ⟨fun s hs => ⟨s, hs, rfl, rfl⟩, ⟨[], by simp⟩, ⟨[], by simp⟩, ⟨[], by simp⟩, ⟨[], by simp⟩⟩

theorem Ext.trans {a b c : TxSt} (h1 : Ext a b) (h2 : Ext b c) : Ext a c := by
  obtain ⟨s1, ⟨g1, hg1⟩, ⟨p1, hp1⟩, ⟨r1, hr1⟩, ⟨f1, hf1⟩⟩ := h1
  obtain ⟨s2, ⟨g2, hg2⟩, ⟨p2, hp2⟩, ⟨r2, hr2⟩, ⟨f2, hf2⟩⟩ := h2
  refine ⟨?_, ⟨g1 ++ g2, by rw [hg2, hg1, List.append_assoc]⟩, ⟨p1 ++ p2, by rw [hp2, hp1, List.append_assoc]⟩,
    ⟨r1 ++ r2, by rw [hr2, hr1, List.append_assoc]⟩, ⟨f1 ++ f2, by rw [hf2, hf1, List.append_assoc]⟩⟩
  intro s hs
  obtain ⟨s', hs', h1, h2⟩ := s1 s hs
  obtain ⟨s'', hs'', h3, h4⟩ := s2 s' hs'
  exact ⟨s'', hs'', by rw [h3, h1], by rw [h4, h2]⟩

theorem ext_snaps_of_super (a : TxSt) (snaps : List Snap) (h : ∀ s ∈ a.snaps, s ∈ snaps) :
    ∀ s ∈ a.snaps, ∃ s' ∈ snaps, s'.pfx = s.pfx ∧ s'.base = s.base :=
  fun s hs => ⟨s, h s hs, rfl, rfl⟩

theorem execGet_ext (log : Log) (tx : TxSt) (pfx : Bytes) (nb : Nat) (k : Bytes) (ign : Bool) :
    Ext tx (execGet log tx pfx nb k ign).1 := by
  have hs := ext_snaps_of_super tx _ (snapOf_snd_super tx k pfx nb)
  unfold execGet
  simp only []
  split
  · exact ⟨hs, ⟨[], by simp⟩, ⟨[], by simp⟩, ⟨[], by simp⟩, ⟨[], by simp⟩⟩
  · split
    · exact ⟨hs, ⟨_, rfl⟩, ⟨[], by simp⟩, ⟨[], by simp⟩, ⟨[], by simp⟩⟩
    · exact ⟨hs, ⟨_, rfl⟩, ⟨[], by simp⟩, ⟨[], by simp⟩, ⟨[], by simp⟩⟩

theorem execPGet_ext (cfg : Cfg) (log : Log) (tx : TxSt) (pfx : Bytes) (nb : Nat) (p neq : Bytes) (ign : Bool) :
    Ext tx (execPGet cfg log tx pfx nb p neq ign).1 := by
  have hs := ext_snaps_of_super tx _ (snapOf_snd_super tx p pfx nb)
  unfold execPGet
  simp only []
  split
  · exact ⟨hs, ⟨[], by simp⟩, ⟨_, rfl⟩, ⟨[], by simp⟩, ⟨[], by simp⟩⟩
  · split
    · split
      · exact ⟨hs, ⟨[], by simp⟩, ⟨[], by simp⟩, ⟨[], by simp⟩, ⟨[], by simp⟩⟩
      · exact ⟨hs, ⟨[], by simp⟩, ⟨[], by simp⟩, ⟨[], by simp⟩, ⟨[], by simp⟩⟩
    · exact ⟨hs, ⟨[], by simp⟩, ⟨_, rfl⟩, ⟨[], by simp⟩, ⟨[], by simp⟩⟩

theorem execScan_ext (cfg : Cfg) (log : Log) (tx : TxSt) (pfx : Bytes) (nb : Nat) (spec : ScanSpec) (segs : List Nat) :
    Ext tx (execScan cfg log tx pfx nb spec segs).1 := by
  have hs := ext_snaps_of_super tx _ (snapOf_snd_super tx spec.pfx pfx nb)
  unfold execScan
  exact ⟨hs, ⟨[], by simp⟩, ⟨[], by simp⟩, ⟨_, rfl⟩, ⟨[], by simp⟩⟩

theorem execMark_ext (cfg : Cfg) (log : Log) (tx : TxSt) (pfx : Bytes) (nb : Nat) (spec : ScanSpec) :
    Ext tx (execMark cfg log tx pfx nb spec).1 := by
  have hs := ext_snaps_of_super tx _ (snapOf_snd_super tx spec.pfx pfx nb)
  unfold execMark
  exact ⟨hs, ⟨[], by simp⟩, ⟨[], by simp⟩, ⟨[], by simp⟩, ⟨_, rfl⟩⟩

theorem execSet_ext (tx : TxSt) (pfx : Bytes) (nb : Nat) (e : Entry) : Ext tx (execSet tx pfx nb e) := by
  unfold execSet
  refine ⟨?_, ⟨[], by simp⟩, ⟨[], by simp⟩, ⟨[], by simp⟩, ⟨[], by simp⟩⟩
  intro s hs
  exact markWrote_mem _ e.key s (snapOf_snd_super tx e.key pfx nb s hs)

theorem execOp_ext (cfg : Cfg) (log : Log) (tx : TxSt) (pfx : Bytes) (nb : Nat) (op : Op) :
    Ext tx (execOp cfg log tx pfx nb op).1 := by
  cases op with
  | get k ign => exact execGet_ext log tx pfx nb k ign
  | getPrefix p neq ign => exact execPGet_ext cfg log tx pfx nb p neq ign
  | scan spec segs => exact execScan_ext cfg log tx pfx nb spec segs
  | markPrefix spec => exact execMark_ext cfg log tx pfx nb spec
  | set k v => exact execSet_ext tx pfx nb _
  | delete k =>
    rw [execOp_delete]
    unfold delOut
    split
    · split
      · exact execGet_ext log tx pfx nb k true
      · exact (execGet_ext log tx pfx nb k true).trans (execSet_ext _ pfx nb _)
    · exact execGet_ext log tx pfx nb k true
  | commit => exact Ext.refl tx
  | cancel => exact Ext.refl tx

theorem valSnap_of_ext {cfg : Cfg} {look : Bytes → Option Ver} {a b : TxSt} (h : Ext a b) (pfx : Bytes)
    (hv : valSnap cfg look b.rs pfx = true) : valSnap cfg look a.rs pfx = true := by
  obtain ⟨_, ⟨g, hg⟩, ⟨p, hp⟩, ⟨r, hr⟩, ⟨f, hf⟩⟩ := h
  unfold valSnap at hv ⊢
  rw [hg, hp, hr, hf] at hv
  simp only [List.all_append, Bool.and_eq_true] at hv ⊢
  exact ⟨⟨⟨hv.1.1.1.1, hv.1.1.2.1⟩, hv.1.2.1⟩, hv.2.1⟩

theorem validates_of_ext {cfg : Cfg} {L : Log} {a b : TxSt} (h : Ext a b) (hv : Validates cfg L b) :
    Validates cfg L a := by
  intro s hs
  obtain ⟨s', hs', h1, h2⟩ := h.1 s hs
  rcases hv s' hs' with hb | hvv
  · exact Or.inl (by rw [← h2]; exact hb)
  · exact Or.inr (by rw [← h1]; exact valSnap_of_ext h _ hvv)

theorem noOwnTail_of_ext {a b : TxSt} (h : Ext a b) (hv : noOwnTail b.rs = true) : noOwnTail a.rs = true := by
  obtain ⟨_, _, _, ⟨r, hr⟩, _⟩ := h
  unfold noOwnTail at hv ⊢
  rw [hr] at hv
  simp only [List.all_append, Bool.and_eq_true] at hv
  exact hv.1


/-! ## one program step (any op that is not commit / cancel) -/

def opStep (cfg : Cfg) (log : Log) (tx : TxSt) (nb : Nat) (op : Op) : TxSt :=
  match op.snapKey with
  | none => tx
  | some key =>
    match idxFor cfg key with
    | none => push tx .noIndex
    | some j => execPush cfg log tx (cfg.idxs.getD j []) nb op

theorem idxFor_prefix {cfg : Cfg} {key : Bytes} {j : Nat} (h : idxFor cfg key = some j) :
    hasPrefix key (cfg.idxs.getD j []) = true := by
  unfold idxFor at h
  rw [List.findIdx?_eq_some_iff_getElem] at h
  obtain ⟨hj, hp, _⟩ := h
  simp [List.getD, hj, hp]

/-- the side condition on one step: a `GetWithPrefix` call was not answered by an own write. -/
def stepPgOK (op : Op) (r : Res) : Bool :=
  match op, r with
  | .getPrefix _ _ _, .found _ v => v.tx != 0
  | _, _ => true

theorem execOp_sim (cfg : Cfg) (hU : cfg.U.Nodup) (l ext : Log) (txc txs : TxSt) (pfx : Bytes) (nb : Nat) (op : Op)
    (key : Bytes) (hk : op.snapKey = some key) (hp : hasPrefix key pfx = true) (hnb : nb ≤ l.length)
    (hrel : RelB txc txs) (hbd : Bounded l.length txc) (hfr : Fresh (l ++ ext) txs)
    (hval : Validates cfg (l ++ ext) (execOp cfg l txc pfx nb op).1)
    (htail : noOwnTail (execOp cfg l txc pfx nb op).1.rs = true)
    (hpg : stepPgOK op (execOp cfg l txc pfx nb op).2 = true) :
    SimOut l.length (l ++ ext) (execOp cfg l txc pfx nb op) (execOp cfg (l ++ ext) txs pfx (l ++ ext).length op) := by
  cases op with
  | get k ign =>
    simp only [Op.snapKey, Option.some.injEq] at hk; subst hk
    exact get_sim cfg l ext txc txs pfx nb k ign hp hnb hrel hbd hfr hval
  | getPrefix p neq ign =>
    simp only [Op.snapKey, Option.some.injEq] at hk; subst hk
    apply pget_sim cfg hU l ext txc txs pfx nb p neq ign hp hnb hrel hbd hfr hval
    intro k v hr
    simp only [execOp] at hpg
    rw [hr] at hpg
    simpa [stepPgOK] using hpg
  | scan spec segs =>
    simp only [Op.snapKey, Option.some.injEq] at hk; subst hk
    exact scan_sim cfg hU l ext txc txs pfx nb spec segs hp hnb hrel hbd hfr hval htail
  | markPrefix spec =>
    exact mark_sim cfg l ext txc txs pfx nb spec hnb hrel hbd hfr
  | set k v =>
    obtain ⟨h1, h2, h3⟩ := set_sim l ext txc txs pfx nb ⟨k, v, false⟩ hnb hrel hbd hfr
    exact ⟨rfl, h1, h2, h3⟩
  | delete k =>
    simp only [Op.snapKey, Option.some.injEq] at hk; subst hk
    exact delete_sim cfg l ext txc txs pfx nb k hp hnb hrel hbd hfr hval
  | commit => simp [Op.snapKey] at hk
  | cancel => simp [Op.snapKey] at hk

theorem push_relB {a b : TxSt} (r : Res) (h : RelB a b) : RelB (push a r) (push b r) := by
  obtain ⟨h1, h2, h3⟩ := h
  exact ⟨h1, by simp [push, h2], h3⟩

theorem opStep_sim (cfg : Cfg) (hU : cfg.U.Nodup) (l ext : Log) (txc txs : TxSt) (nb : Nat) (op : Op)
    (hnb : nb ≤ l.length)
    (hrel : RelB txc txs) (hbd : Bounded l.length txc) (hfr : Fresh (l ++ ext) txs)
    (hval : Validates cfg (l ++ ext) (opStep cfg l txc nb op))
    (htail : noOwnTail (opStep cfg l txc nb op).rs = true)
    (hpg : ∀ r, (opStep cfg l txc nb op).trace.getLast? = some r → stepPgOK op r = true) :
    RelB (opStep cfg l txc nb op) (opStep cfg (l ++ ext) txs (l ++ ext).length op) ∧
    Bounded l.length (opStep cfg l txc nb op) ∧ Fresh (l ++ ext) (opStep cfg (l ++ ext) txs (l ++ ext).length op) := by
  unfold opStep at hval htail hpg ⊢
  cases hk : op.snapKey with
  | none => exact ⟨hrel, hbd, hfr⟩
  | some key =>
    simp only [hk] at hval htail hpg ⊢
    cases hj : idxFor cfg key with
    | none => exact ⟨push_relB _ hrel, hbd, hfr⟩
    | some j =>
      simp only [hj] at hval htail hpg ⊢
      simp only [execPush] at hval htail hpg ⊢
      have hpg' : stepPgOK op (execOp cfg l txc (cfg.idxs.getD j []) nb op).2 = true :=
        hpg _ (by simp [push])
      obtain ⟨hres, hr, hb, hf⟩ := execOp_sim cfg hU l ext txc txs _ nb op key hk (idxFor_prefix hj) hnb hrel hbd hfr
        hval htail hpg'
      rw [← hres]
      exact ⟨push_relB _ hr, hb, hf⟩

theorem opStep_ext (cfg : Cfg) (log : Log) (tx : TxSt) (nb : Nat) (op : Op) : Ext tx (opStep cfg log tx nb op) := by
  unfold opStep
  split
  · exact Ext.refl tx
  · split
    · exact Ext.refl tx
    · exact execOp_ext cfg log tx _ nb op

theorem execOp_bounded (cfg : Cfg) (log : Log) (tx : TxSt) (pfx : Bytes) (nb n : Nat) (op : Op)
    (hb : Bounded n tx) (hn : nb ≤ n) : Bounded n (execOp cfg log tx pfx nb op).1 := by
  have hS : ∀ (t : TxSt) (e : Entry), Bounded n t → Bounded n (execSet t pfx nb e) := by
    intro t e ht
    unfold execSet
    exact markWrote_base _ _ (fun b => b ≤ n) (snapOf_bounded t e.key pfx nb n ht hn)
  have hG : ∀ k ign, Bounded n (execGet log tx pfx nb k ign).1 := by
    intro k ign
    have := snapOf_bounded tx k pfx nb n hb hn
    unfold execGet
    simp only []
    split
    · exact this
    · split <;> exact this
  cases op with
  | get k ign => exact hG k ign
  | getPrefix p neq ign =>
    have := snapOf_bounded tx p pfx nb n hb hn
    simp only [execOp]
    unfold execPGet
    simp only []
    split
    · exact this
    · split
      · split <;> exact this
      · exact this
  | scan spec segs => exact snapOf_bounded tx spec.pfx pfx nb n hb hn
  | markPrefix spec => exact snapOf_bounded tx spec.pfx pfx nb n hb hn
  | set k v => exact hS tx _ hb
  | delete k =>
    rw [execOp_delete]
    unfold delOut
    split
    · split
      · exact hG k true
      · exact hS _ _ (hG k true)
    · exact hG k true
  | commit => exact hb
  | cancel => exact hb

theorem opStep_bounded (cfg : Cfg) (log : Log) (tx : TxSt) (nb n : Nat) (op : Op)
    (hb : Bounded n tx) (hn : nb ≤ n) : Bounded n (opStep cfg log tx nb op) := by
  unfold opStep
  split
  · exact hb
  · split
    · exact hb
    · exact execOp_bounded cfg log tx _ nb n op hb hn

theorem execOp_trace (cfg : Cfg) (log : Log) (tx : TxSt) (pfx : Bytes) (nb : Nat) (op : Op) :
    (execOp cfg log tx pfx nb op).1.trace = tx.trace := by
  have hg : ∀ k ign, (execGet log tx pfx nb k ign).1.trace = tx.trace := by
    intro k ign
    unfold execGet; simp only []; split; rfl; split <;> rfl
  cases op with
  | get k ign => exact hg k ign
  | getPrefix p neq ign =>
    unfold execOp execPGet; simp only []
    split
    · rfl
    · split
      · split <;> rfl
      · rfl
  | scan spec segs => rfl
  | markPrefix spec => rfl
  | set k v => rfl
  | delete k =>
    rw [execOp_delete]; unfold delOut
    split
    · split
      · exact hg k true
      · unfold execSet; exact hg k true
    · exact hg k true
  | commit => rfl
  | cancel => rfl

theorem opStep_trace (cfg : Cfg) (log : Log) (tx : TxSt) (nb : Nat) (op : Op) (hk : op.snapKey ≠ none) :
    ∃ r, (opStep cfg log tx nb op).trace = tx.trace ++ [r] := by
  unfold opStep
  cases h : op.snapKey with
  | none => exact absurd h hk
  | some key =>
    simp only []
    cases hj : idxFor cfg key with
    | none => exact ⟨_, rfl⟩
    | some j =>
      simp only [execPush, push]
      exact ⟨_, by rw [execOp_trace]⟩


/-! ## the solo run, step by step -/

def notEnd (op : Op) : Prop := op ≠ .commit ∧ op ≠ .cancel

def soloPart (cfg : Cfg) (L : Log) (ops : List Op) (tx : TxSt) : TxSt :=
  ops.foldl (fun t op => opStep cfg L t L.length op) tx

theorem soloOps_cons (cfg : Cfg) (L : Log) (op : Op) (rest : List Op) (tx : TxSt) (h : notEnd op) :
    soloOps cfg L (op :: rest) tx = soloOps cfg L rest (opStep cfg L tx L.length op) := by
  obtain ⟨h1, h2⟩ := h
  cases op with
  | commit => exact absurd rfl h1
  | cancel => exact absurd rfl h2
  | get k ign => simp only [soloOps, opStep, Op.snapKey]; cases idxFor cfg k <;> rfl
  | getPrefix p neq ign => simp only [soloOps, opStep, Op.snapKey]; cases idxFor cfg p <;> rfl
  | scan spec segs => simp only [soloOps, opStep, Op.snapKey]; cases idxFor cfg spec.pfx <;> rfl
  | markPrefix spec => simp only [soloOps, opStep, Op.snapKey]; cases idxFor cfg spec.pfx <;> rfl
  | set k v => simp only [soloOps, opStep, Op.snapKey]; cases idxFor cfg k <;> rfl
  | delete k => simp only [soloOps, opStep, Op.snapKey]; cases idxFor cfg k <;> rfl

theorem soloOps_append (cfg : Cfg) (L : Log) : ∀ (pre rest : List Op) (tx : TxSt), (∀ op ∈ pre, notEnd op) →
    soloOps cfg L (pre ++ rest) tx = soloOps cfg L rest (soloPart cfg L pre tx) := by
  intro pre
  induction pre with
  | nil => intro rest tx _; rfl
  | cons op pre ih =>
    intro rest tx h
    rw [List.cons_append, soloOps_cons cfg L op _ tx (h op (by simp))]
    rw [ih rest _ (fun o ho => h o (by simp [ho]))]
    rfl

theorem soloPart_snoc (cfg : Cfg) (L : Log) (ops : List Op) (op : Op) (tx : TxSt) :
    soloPart cfg L (ops ++ [op]) tx = opStep cfg L (soloPart cfg L ops tx) L.length op := by
  simp [soloPart, List.foldl_append]

/-! ## `pgetOwnFree` along the program -/

theorem pgetOwnFree_snoc : ∀ (ops : List Op) (tr : List Res) (op : Op) (r : Res), ops.length = tr.length →
    pgetOwnFree (ops ++ [op]) (tr ++ [r]) = (pgetOwnFree ops tr && stepPgOK op r) := by
  intro ops
  induction ops with
  | nil =>
    intro tr op r h
    cases tr with
    | nil =>
      cases op <;> cases r <;> simp [pgetOwnFree, stepPgOK]
    | cons x xs => simp at h
  | cons o ops ih =>
    intro tr op r h
    cases tr with
    | nil => simp at h
    | cons x xs =>
      simp only [List.length_cons, Nat.add_right_cancel_iff] at h
      have := ih xs op r h
      cases o <;> cases x <;> simp [pgetOwnFree, this, Bool.and_assoc]

/-- only the first `|trace|` ops matter. -/
theorem pgetOwnFree_prefix : ∀ (ops rest : List Op) (tr rest' : List Res), ops.length = tr.length →
    pgetOwnFree (ops ++ rest) (tr ++ rest') = true → pgetOwnFree ops tr = true := by
  intro ops
  induction ops with
  | nil => intro rest tr rest' h _; cases tr with
    | nil => simp [pgetOwnFree]
    | cons x xs => simp at h
  | cons o ops ih =>
    intro rest tr rest' h hp
    cases tr with
    | nil => simp at h
    | cons x xs =>
      simp only [List.length_cons, Nat.add_right_cancel_iff] at h
      simp only [List.cons_append] at hp
      cases o <;> cases x <;> simp [pgetOwnFree] at hp ⊢ <;>
        first | exact ih rest xs rest' h hp | exact ⟨hp.1, ih rest xs rest' h hp.2⟩

/-! ## what a successful `checkPreconditions` means -/

theorem checkSnaps_validates (cfg : Cfg) (look : Bytes → Option Ver) (last : Nat) (rs : ReadSet) :
    ∀ (snaps : List Snap), (∀ s ∈ snaps, s.base ≤ last) →
    checkSnaps cfg look last rs snaps = true →
    ∀ s ∈ snaps, s.base = last ∨ valSnap cfg look rs s.pfx = true := by
  intro snaps
  induction snaps with
  | nil => intro _ _ s hs; simp at hs
  | cons x rest ih =>
    intro hb hc s hs
    simp only [checkSnaps] at hc
    by_cases hts : x.ts > last
    · -- skipped (`continue`): x is fresh (and written); the loop goes on with the other snapshots
      simp only [hts, ↓reduceIte] at hc
      have hxb : x.base ≤ last := hb x (by simp)
      have hx : x.base = last := by
        unfold Snap.ts at hts
        split at hts <;> omega
      simp only [List.mem_cons] at hs
      rcases hs with hs | hs
      · subst hs; exact Or.inl hx
      · exact ih (fun s hs => hb s (by simp [hs])) hc s hs
    · simp only [hts, ↓reduceIte] at hc
      by_cases hv : valSnap cfg look rs x.pfx = true
      · simp only [hv, ↓reduceIte] at hc
        simp only [List.mem_cons] at hs
        rcases hs with hs | hs
        · subst hs; exact Or.inr hv
        · exact ih (fun s hs => hb s (by simp [hs])) hc s hs
      · simp [hv] at hc


/-! ## snapshot bases: a call keeps them or appends the base of the snapshot it acquired -/

def monoB : List Nat → Bool
  | [] => true
  | b :: rest => rest.all (fun r => b ≤ r) && monoB rest

theorem snapMonotone_eq (snaps : List Snap) : snapMonotone snaps = monoB (snaps.map (·.base)) := by
  induction snaps with
  | nil => rfl
  | cons s rest ih => simp [snapMonotone, monoB, ih, List.all_map, Function.comp_def]

theorem monoB_snoc : ∀ (bs : List Nat) (nb : Nat), monoB bs = true → (∀ b ∈ bs, b ≤ nb) → monoB (bs ++ [nb]) = true := by
  intro bs
  induction bs with
  | nil => intro nb _ _; simp [monoB]
  | cons b rest ih =>
    intro nb hm hb
    simp only [monoB, Bool.and_eq_true] at hm
    simp only [List.cons_append, monoB, Bool.and_eq_true, List.all_append, List.all_cons, List.all_nil, Bool.and_true]
    refine ⟨⟨hm.1, by simpa using hb b (by simp)⟩, ih nb hm.2 (fun x hx => hb x (by simp [hx]))⟩

theorem markWrote_bases (snaps : List Snap) (key : Bytes) :
    (markWrote snaps key).map (·.base) = snaps.map (·.base) := by
  induction snaps with
  | nil => rfl
  | cons s rest ih =>
    simp only [markWrote]
    split
    · simp
    · simp [ih]

/-- `B tx' tx key nb`: the bases of `tx'` are those of `tx`, plus `nb` at the end if `key` had no snapshot. -/
def BasesStep (tx' tx : TxSt) (key : Bytes) (nb : Nat) : Prop :=
  tx'.snaps.map (·.base) = tx.snaps.map (·.base) ∨
  (heldSnap tx.snaps key = none ∧ tx'.snaps.map (·.base) = tx.snaps.map (·.base) ++ [nb])

theorem snapOf_bases (tx : TxSt) (key pfx : Bytes) (nb : Nat) :
    (snapOf tx key pfx nb).2.map (·.base) = tx.snaps.map (·.base) ∨
    (heldSnap tx.snaps key = none ∧ (snapOf tx key pfx nb).2.map (·.base) = tx.snaps.map (·.base) ++ [nb]) := by
  unfold snapOf
  cases h : heldSnap tx.snaps key with
  | some s => exact Or.inl rfl
  | none => exact Or.inr ⟨rfl, by simp⟩

theorem snapOf_snd_of_held (tx : TxSt) (key pfx : Bytes) (nb : Nat) (s : Snap) (h : heldSnap tx.snaps key = some s) :
    (snapOf tx key pfx nb).2 = tx.snaps := by
  unfold snapOf; simp [h]

theorem snapOf_held_after (tx : TxSt) (key pfx : Bytes) (nb : Nat) (hp : hasPrefix key pfx = true) :
    ∃ s, heldSnap (snapOf tx key pfx nb).2 key = some s := by
  unfold snapOf
  cases h : heldSnap tx.snaps key with
  | some s => exact ⟨s, h⟩
  | none =>
    simp only []
    unfold heldSnap at h ⊢
    rw [List.find?_append, h]
    simp [hp]

theorem execOp_bases (cfg : Cfg) (log : Log) (tx : TxSt) (pfx : Bytes) (nb : Nat) (op : Op) (key : Bytes)
    (hk : op.snapKey = some key) (hp : hasPrefix key pfx = true) :
    BasesStep (execOp cfg log tx pfx nb op).1 tx key nb := by
  have hG : ∀ k ign, (execGet log tx pfx nb k ign).1.snaps = (snapOf tx k pfx nb).2 := by
    intro k ign
    unfold execGet; simp only []; split; rfl; split <;> rfl
  cases op with
  | get k ign =>
    simp only [Op.snapKey, Option.some.injEq] at hk; subst hk
    unfold BasesStep; simp only [execOp]; rw [hG]; exact snapOf_bases tx k pfx nb
  | getPrefix p neq ign =>
    simp only [Op.snapKey, Option.some.injEq] at hk; subst hk
    have : (execPGet cfg log tx pfx nb p neq ign).1.snaps = (snapOf tx p pfx nb).2 := by
      unfold execPGet; simp only []
      split
      · rfl
      · split
        · split <;> rfl
        · rfl
    unfold BasesStep; simp only [execOp]; rw [this]; exact snapOf_bases tx p pfx nb
  | scan spec segs =>
    simp only [Op.snapKey, Option.some.injEq] at hk; subst hk
    exact snapOf_bases tx spec.pfx pfx nb
  | markPrefix spec =>
    simp only [Op.snapKey, Option.some.injEq] at hk; subst hk
    exact snapOf_bases tx spec.pfx pfx nb
  | set k v =>
    simp only [Op.snapKey, Option.some.injEq] at hk; subst hk
    unfold BasesStep; simp only [execOp, execSet, markWrote_bases]
    exact snapOf_bases tx k pfx nb
  | delete k =>
    simp only [Op.snapKey, Option.some.injEq] at hk; subst hk
    rw [execOp_delete]
    unfold delOut
    have hsn := snapOf_bases tx k pfx nb
    split
    · split
      · unfold BasesStep; rw [hG]; exact hsn
      · -- the Set after the Get finds the snapshot the Get holds
        unfold BasesStep
        have hset : (execSet (execGet log tx pfx nb k true).1 pfx nb ⟨k, [], true⟩).snaps.map (·.base)
            = (snapOf tx k pfx nb).2.map (·.base) := by
          unfold execSet
          simp only [markWrote_bases]
          obtain ⟨s, hs⟩ := snapOf_held_after tx k pfx nb hp
          rw [snapOf_snd_of_held _ k pfx nb s (by rw [hG]; exact hs), hG]
        rw [hset]; exact hsn
    · unfold BasesStep; rw [hG]; exact hsn
  | commit => simp [Op.snapKey] at hk
  | cancel => simp [Op.snapKey] at hk

theorem opStep_bases (cfg : Cfg) (log : Log) (tx : TxSt) (nb : Nat) (op : Op) (key : Bytes)
    (hk : op.snapKey = some key) : BasesStep (opStep cfg log tx nb op) tx key nb := by
  unfold opStep
  simp only [hk]
  cases hj : idxFor cfg key with
  | none => exact Or.inl rfl
  | some j =>
    simp only [execPush, push]
    exact execOp_bases cfg log tx _ nb op key hk (idxFor_prefix hj)

theorem opStep_mono (cfg : Cfg) (log : Log) (tx : TxSt) (nb : Nat) (op : Op) (key : Bytes)
    (hk : op.snapKey = some key) (hm : snapMonotone tx.snaps = true) (hb : Bounded log.length tx)
    (hnb : heldSnap tx.snaps key = none → nb = log.length) :
    snapMonotone (opStep cfg log tx nb op).snaps = true := by
  rw [snapMonotone_eq] at hm ⊢
  rcases opStep_bases cfg log tx nb op key hk with h | ⟨h1, h2⟩
  · rw [h]; exact hm
  · rw [h2]
    apply monoB_snoc _ _ hm
    intro b hbm
    rw [List.mem_map] at hbm
    obtain ⟨s, hs, hsb⟩ := hbm
    rw [← hsb, hnb h1]
    exact hb s hs

/-! ## the invariant carried along every schedule -/

def ActiveInv (cfg : Cfg) (prog : List Op) (mi : Option Nat) (log : Log) (tx : TxSt) : Prop :=
  ∃ k, k ≤ prog.length ∧ tx.prog = prog.drop k ∧ tx.trace.length = k ∧ (∀ op ∈ prog.take k, notEnd op) ∧
    Bounded log.length tx ∧ tx.mustIncl = mi ∧ (mi = none → snapMonotone tx.snaps = true) ∧
    ∀ ext, Validates cfg (log ++ ext) tx → noOwnTail tx.rs = true → pgetOwnFree (prog.take k) tx.trace = true →
      RelB tx (soloPart cfg (log ++ ext) (prog.take k) { prog := prog }) ∧
      Fresh (log ++ ext) (soloPart cfg (log ++ ext) (prog.take k) { prog := prog })

def CommittedInv (cfg : Cfg) (prog : List Op) (mi : Option Nat) (log : Log) (tx : TxSt) (n : Nat) : Prop :=
  1 ≤ n ∧ n - 1 ≤ log.length ∧ (mi = none → snapMonotone tx.snaps = true) ∧
    (noOwnTail tx.rs = true → pgetOwnFree prog tx.trace = true →
      tx.trace = soloTrace cfg log (n - 1) prog)

def TxInv (cfg : Cfg) (prog : List Op) (mi : Option Nat) (log : Log) (tx : TxSt) : Prop :=
  match tx.status with
  | .active => ActiveInv cfg prog mi log tx
  | .committed n => CommittedInv cfg prog mi log tx n
  | _ => True

theorem ActiveInv.grow {cfg : Cfg} {prog : List Op} {mi : Option Nat} {log : Log} {tx : TxSt} (h : ActiveInv cfg prog mi log tx)
    (more : Log) : ActiveInv cfg prog mi (log ++ more) tx := by
  obtain ⟨k, h1, h2, h3, h4, h5, hmi, hmo, h6⟩ := h
  refine ⟨k, h1, h2, h3, h4, ?_, hmi, hmo, ?_⟩
  · intro s hs; have := h5 s hs; rw [List.length_append]; omega
  · intro ext hv ht hp
    rw [List.append_assoc] at hv ⊢
    exact h6 (more ++ ext) hv ht hp

theorem soloTrace_grow (cfg : Cfg) (log more : Log) (n : Nat) (prog : List Op) (h : n ≤ log.length) :
    soloTrace cfg (log ++ more) n prog = soloTrace cfg log n prog := by
  unfold soloTrace
  rw [List.take_append_of_le_length h]

theorem CommittedInv.grow {cfg : Cfg} {prog : List Op} {mi : Option Nat} {log : Log} {tx : TxSt} {n : Nat}
    (h : CommittedInv cfg prog mi log tx n) (more : Log) : CommittedInv cfg prog mi (log ++ more) tx n := by
  obtain ⟨h1, h2, hmo, h3⟩ := h
  refine ⟨h1, by rw [List.length_append]; omega, hmo, ?_⟩
  intro a b
  rw [soloTrace_grow cfg log more _ prog h2]
  exact h3 a b

theorem TxInv.grow {cfg : Cfg} {prog : List Op} {mi : Option Nat} {log : Log} {tx : TxSt} (h : TxInv cfg prog mi log tx) (more : Log) :
    TxInv cfg prog mi (log ++ more) tx := by
  unfold TxInv at h ⊢
  split
  · rename_i hs; rw [hs] at h; exact ActiveInv.grow h more
  · rename_i n hs; rw [hs] at h; exact CommittedInv.grow h more
  · trivial

theorem ActiveInv.init (cfg : Cfg) (prog : List Op) (mi : Option Nat) :
    ActiveInv cfg prog mi [] { prog := prog, mustIncl := mi } := by
  refine ⟨0, Nat.zero_le _, by simp, rfl, by simp, ?_, rfl, fun _ => rfl, ?_⟩
  · intro s hs; simp at hs
  · intro ext _ _ _
    refine ⟨⟨rfl, rfl, rfl⟩, ?_⟩
    intro s hs
    simp [soloPart] at hs

end ImmuModel.Mvcc.SerialAux
