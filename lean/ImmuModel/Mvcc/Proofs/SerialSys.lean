/-
C05 helper proofs, system level: the invariant of `Proofs/Serial.lean` holds along every schedule.
-/
import ImmuModel.Mvcc.Proofs.Serial

namespace ImmuModel.Mvcc.SerialAux
open ImmuModel ImmuModel.Mvcc ImmuModel.Mvcc.ViewLemmas ImmuModel.Mvcc.ValidationAux

theorem getD_le_of_all {l : List Nat} {n : Nat} (h : ∀ t ∈ l, t ≤ n) (j : Nat) : l.getD j 0 ≤ n := by
  unfold List.getD
  cases hj : l[j]? with
  | none => simp
  | some x => simp; exact h x (List.mem_of_getElem? hj)

theorem acquire_aux (cur m last choice : Nat) (hcur : cur ≤ last) (hm : m ≤ last) :
    clamp m (max cur m) choice ≤ last ∧ max cur m ≤ last := by
  have hc' : max cur m ≤ last := Nat.max_le.mpr ⟨hcur, hm⟩
  exact ⟨Nat.max_le.mpr ⟨hm, Nat.le_trans (Nat.min_le_right _ _) hc'⟩, hc'⟩

theorem acquire_bound (s : Sys) (tx : TxSt) (j choice : Nat) (hidx : ∀ t ∈ s.idx, t ≤ s.log.length) :
    (acquire s tx j choice).2 ≤ s.log.length ∧ ∀ t ∈ (acquire s tx j choice).1, t ≤ s.log.length := by
  have hcur := getD_le_of_all hidx j
  unfold acquire
  cases hmi : tx.mustIncl with
  | none =>
    simp only []
    have := acquire_aux (s.idx.getD j 0) s.log.length s.log.length choice hcur (Nat.le_refl _)
    refine ⟨this.1, ?_⟩
    intro t ht
    rcases List.mem_or_eq_of_mem_set ht with h | h
    · exact hidx t h
    · rw [h]; exact this.2
  | some n =>
    simp only []
    have := acquire_aux (s.idx.getD j 0) (min n s.log.length) s.log.length choice hcur (Nat.min_le_right _ _)
    refine ⟨this.1, ?_⟩
    intro t ht
    rcases List.mem_or_eq_of_mem_set ht with h | h
    · exact hidx t h
    · rw [h]; exact this.2

theorem acquire_default (s : Sys) (tx : TxSt) (j choice : Nat) (hidx : ∀ t ∈ s.idx, t ≤ s.log.length)
    (hmi : tx.mustIncl = none) : (acquire s tx j choice).2 = s.log.length := by
  have hcur := getD_le_of_all hidx j
  unfold acquire
  simp only [hmi]
  unfold clamp
  omega

theorem step_op_run (cfg : Cfg) (s : Sys) (i c : Nat) (tx : TxSt) (op : Op) (rest : List Op)
    (htx : s.txs[i]? = some tx) (hst : tx.status = .active) (hprog : tx.prog = op :: rest) (hne : notEnd op)
    (hidx : ∀ t ∈ s.idx, t ≤ s.log.length) :
    ∃ idx' nb, nb ≤ s.log.length ∧ (∀ t ∈ idx', t ≤ s.log.length) ∧
      (∀ key, op.snapKey = some key → heldSnap tx.snaps key = none → tx.mustIncl = none → nb = s.log.length) ∧
      step cfg s (.op i c) = setTx { s with idx := idx' } i (opStep cfg s.log { tx with prog := rest } nb op) := by
  have hab := acquire_bound s { tx with prog := rest }
  have had := acquire_default s { tx with prog := rest }
  unfold step
  simp only [htx, hst, hprog]
  cases op with
  | commit => exact absurd rfl hne.1
  | cancel => exact absurd rfl hne.2
  | get k ign =>
    simp only [Op.snapKey, opStep]
    cases hj : idxFor cfg k with
    | none => exact ⟨s.idx, s.log.length, Nat.le_refl _, hidx, fun _ _ _ _ => rfl, rfl⟩
    | some j =>
      simp only []
      cases hh : heldSnap tx.snaps k with
      | some sn => exact ⟨s.idx, 0, Nat.zero_le _, hidx, fun key hk hh' _ => by simp only [Op.snapKey, Option.some.injEq] at hk; subst hk; rw [hh] at hh'; simp at hh', rfl⟩
      | none => exact ⟨_, _, (hab j c hidx).1, (hab j c hidx).2, fun _ _ _ hmi => had j c hidx hmi, rfl⟩
  | getPrefix p neq ign =>
    simp only [Op.snapKey, opStep]
    cases hj : idxFor cfg p with
    | none => exact ⟨s.idx, s.log.length, Nat.le_refl _, hidx, fun _ _ _ _ => rfl, rfl⟩
    | some j =>
      simp only []
      cases hh : heldSnap tx.snaps p with
      | some sn => exact ⟨s.idx, 0, Nat.zero_le _, hidx, fun key hk hh' _ => by simp only [Op.snapKey, Option.some.injEq] at hk; subst hk; rw [hh] at hh'; simp at hh', rfl⟩
      | none => exact ⟨_, _, (hab j c hidx).1, (hab j c hidx).2, fun _ _ _ hmi => had j c hidx hmi, rfl⟩
  | scan spec segs =>
    simp only [Op.snapKey, opStep]
    cases hj : idxFor cfg spec.pfx with
    | none => exact ⟨s.idx, s.log.length, Nat.le_refl _, hidx, fun _ _ _ _ => rfl, rfl⟩
    | some j =>
      simp only []
      cases hh : heldSnap tx.snaps spec.pfx with
      | some sn => exact ⟨s.idx, 0, Nat.zero_le _, hidx, fun key hk hh' _ => by simp only [Op.snapKey, Option.some.injEq] at hk; subst hk; rw [hh] at hh'; simp at hh', rfl⟩
      | none => exact ⟨_, _, (hab j c hidx).1, (hab j c hidx).2, fun _ _ _ hmi => had j c hidx hmi, rfl⟩
  | markPrefix spec =>
    simp only [Op.snapKey, opStep]
    cases hj : idxFor cfg spec.pfx with
    | none => exact ⟨s.idx, s.log.length, Nat.le_refl _, hidx, fun _ _ _ _ => rfl, rfl⟩
    | some j =>
      simp only []
      cases hh : heldSnap tx.snaps spec.pfx with
      | some sn => exact ⟨s.idx, 0, Nat.zero_le _, hidx, fun key hk hh' _ => by simp only [Op.snapKey, Option.some.injEq] at hk; subst hk; rw [hh] at hh'; simp at hh', rfl⟩
      | none => exact ⟨_, _, (hab j c hidx).1, (hab j c hidx).2, fun _ _ _ hmi => had j c hidx hmi, rfl⟩
  | set k v =>
    simp only [Op.snapKey, opStep]
    cases hj : idxFor cfg k with
    | none => exact ⟨s.idx, s.log.length, Nat.le_refl _, hidx, fun _ _ _ _ => rfl, rfl⟩
    | some j =>
      simp only []
      cases hh : heldSnap tx.snaps k with
      | some sn => exact ⟨s.idx, 0, Nat.zero_le _, hidx, fun key hk hh' _ => by simp only [Op.snapKey, Option.some.injEq] at hk; subst hk; rw [hh] at hh'; simp at hh', rfl⟩
      | none => exact ⟨_, _, (hab j c hidx).1, (hab j c hidx).2, fun _ _ _ hmi => had j c hidx hmi, rfl⟩
  | delete k =>
    simp only [Op.snapKey, opStep]
    cases hj : idxFor cfg k with
    | none => exact ⟨s.idx, s.log.length, Nat.le_refl _, hidx, fun _ _ _ _ => rfl, rfl⟩
    | some j =>
      simp only []
      cases hh : heldSnap tx.snaps k with
      | some sn => exact ⟨s.idx, 0, Nat.zero_le _, hidx, fun key hk hh' _ => by simp only [Op.snapKey, Option.some.injEq] at hk; subst hk; rw [hh] at hh'; simp at hh', rfl⟩
      | none => exact ⟨_, _, (hab j c hidx).1, (hab j c hidx).2, fun _ _ _ hmi => had j c hidx hmi, rfl⟩


/-! ## frame: a call changes neither `prog` nor `status` -/

theorem execOp_mustIncl (cfg : Cfg) (log : Log) (tx : TxSt) (pfx : Bytes) (nb : Nat) (op : Op) :
    (execOp cfg log tx pfx nb op).1.mustIncl = tx.mustIncl := by
  have hg : ∀ k ign, (execGet log tx pfx nb k ign).1.mustIncl = tx.mustIncl := by
    intro k ign
    unfold execGet; simp only []; split; rfl; split <;> rfl
  cases op with
  | get k ign => exact hg k ign
  | getPrefix p neq ign =>
    unfold execOp execPGet; simp only []
    split
    · rfl
    · split
      · split <;> rfl
      · rfl
  | scan spec segs => rfl
  | markPrefix spec => rfl
  | set k v => rfl
  | delete k =>
    rw [execOp_delete]; unfold delOut
    split
    · split
      · exact hg k true
      · unfold execSet; exact hg k true
    · exact hg k true
  | commit => rfl
  | cancel => rfl

theorem opStep_mustIncl (cfg : Cfg) (log : Log) (tx : TxSt) (nb : Nat) (op : Op) :
    (opStep cfg log tx nb op).mustIncl = tx.mustIncl := by
  unfold opStep
  split
  · rfl
  · split
    · rfl
    · simp only [execPush, push]; exact execOp_mustIncl cfg log tx _ nb op

theorem execOp_frame (cfg : Cfg) (log : Log) (tx : TxSt) (pfx : Bytes) (nb : Nat) (op : Op) :
    (execOp cfg log tx pfx nb op).1.prog = tx.prog ∧ (execOp cfg log tx pfx nb op).1.status = tx.status := by
  have hg : ∀ k ign, (execGet log tx pfx nb k ign).1.prog = tx.prog ∧ (execGet log tx pfx nb k ign).1.status = tx.status := by
    intro k ign
    unfold execGet; simp only []; split; exact ⟨rfl, rfl⟩; split <;> exact ⟨rfl, rfl⟩
  cases op with
  | get k ign => exact hg k ign
  | getPrefix p neq ign =>
    unfold execOp execPGet; simp only []
    split
    · exact ⟨rfl, rfl⟩
    · split
      · split <;> exact ⟨rfl, rfl⟩
      · exact ⟨rfl, rfl⟩
  | scan spec segs => exact ⟨rfl, rfl⟩
  | markPrefix spec => exact ⟨rfl, rfl⟩
  | set k v => exact ⟨rfl, rfl⟩
  | delete k =>
    rw [execOp_delete]; unfold delOut
    split
    · split
      · exact hg k true
      · unfold execSet; exact hg k true
    · exact hg k true
  | commit => exact ⟨rfl, rfl⟩
  | cancel => exact ⟨rfl, rfl⟩

theorem opStep_frame (cfg : Cfg) (log : Log) (tx : TxSt) (nb : Nat) (op : Op) :
    (opStep cfg log tx nb op).prog = tx.prog ∧ (opStep cfg log tx nb op).status = tx.status := by
  unfold opStep
  split
  · exact ⟨rfl, rfl⟩
  · split
    · exact ⟨rfl, rfl⟩
    · simp only [execPush, push]; exact execOp_frame cfg log tx _ nb op

theorem notEnd_snapKey {op : Op} (h : notEnd op) : op.snapKey ≠ none := by
  cases op <;> simp [Op.snapKey] <;> first | exact absurd rfl h.1 | exact absurd rfl h.2

theorem drop_cons_facts {α : Type} {l : List α} {k : Nat} {a : α} {rest : List α} (h : l.drop k = a :: rest) :
    k < l.length ∧ l.take (k + 1) = l.take k ++ [a] ∧ l.drop (k + 1) = rest := by
  have hk : k < l.length := by
    by_cases hk : k < l.length
    · exact hk
    · rw [List.drop_eq_nil_of_le (by omega)] at h; simp at h
  rw [List.drop_eq_getElem_cons hk] at h
  injection h with h1 h2
  refine ⟨hk, ?_, h2⟩
  rw [List.take_add_one, List.getElem?_eq_getElem hk, h1]; rfl

theorem activeInv_step (cfg : Cfg) (hU : cfg.U.Nodup) (prog : List Op) (mi : Option Nat) (log : Log) (tx : TxSt) (op : Op) (rest : List Op)
    (nb : Nat) (hinv : ActiveInv cfg prog mi log tx) (hprog : tx.prog = op :: rest) (hne : notEnd op)
    (hnb : nb ≤ log.length)
    (hnbd : ∀ key, op.snapKey = some key → heldSnap tx.snaps key = none → tx.mustIncl = none → nb = log.length) :
    ActiveInv cfg prog mi log (opStep cfg log { tx with prog := rest } nb op) := by
  obtain ⟨k, hk, hp, htl, hnoend, hbd, hmi, hmo, hsim⟩ := hinv
  rw [hprog] at hp
  obtain ⟨hklt, htake, hdrop⟩ := drop_cons_facts hp.symm
  obtain ⟨r, hr⟩ := opStep_trace cfg log { tx with prog := rest } nb op (notEnd_snapKey hne)
  have hfr := opStep_frame cfg log { tx with prog := rest } nb op
  refine ⟨k + 1, by omega, ?_, ?_, ?_, ?_, ?_, ?_, ?_⟩
  · rw [hfr.1, hdrop]
  · rw [hr]; simp [htl]
  · intro o ho
    rw [htake] at ho
    simp only [List.mem_append, List.mem_singleton] at ho
    rcases ho with ho | ho
    · exact hnoend o ho
    · subst ho; exact hne
  · exact opStep_bounded cfg log { tx with prog := rest } nb log.length op hbd hnb
  · rw [opStep_mustIncl]; exact hmi
  · intro hnone
    cases hkk : op.snapKey with
    | none => exact absurd hkk (notEnd_snapKey hne)
    | some key =>
      exact opStep_mono cfg log { tx with prog := rest } nb op key hkk (hmo hnone) hbd
        (fun hh => hnbd key hkk hh (by rw [hmi]; exact hnone))
  · intro ext hv ht hpg
    have hext := opStep_ext cfg log { tx with prog := rest } nb op
    have hv0 : Validates cfg (log ++ ext) tx := validates_of_ext hext hv
    have ht0 : noOwnTail tx.rs = true := noOwnTail_of_ext hext ht
    rw [htake, hr] at hpg
    have hlen : (prog.take k).length = tx.trace.length := by
      rw [List.length_take, htl]; omega
    rw [show ({ tx with prog := rest } : TxSt).trace = tx.trace from rfl,
      pgetOwnFree_snoc _ _ _ _ hlen, Bool.and_eq_true] at hpg
    obtain ⟨hrel, hfresh⟩ := hsim ext hv0 ht0 hpg.1
    have hstep := opStep_sim cfg hU log ext { tx with prog := rest } _ nb op hnb hrel hbd hfresh hv ht
      (by
        intro r' hr'
        rw [hr] at hr'
        simp at hr'
        rw [← hr']; exact hpg.2)
    rw [htake, soloPart_snoc]
    exact ⟨hstep.1, hstep.2.2⟩


/-! ## the commit step -/

theorem valSnap_empty (cfg : Cfg) (look : Bytes → Option Ver) (rs : ReadSet) (pfx : Bytes) (h : rs.isEmpty = true) :
    valSnap cfg look rs pfx = true := by
  unfold ReadSet.isEmpty at h
  simp only [Bool.and_eq_true, List.isEmpty_iff] at h
  unfold valSnap
  simp [h.1.1.1, h.1.1.2, h.1.2, h.2]

theorem commit_inv (cfg : Cfg) (prog : List Op) (mi : Option Nat) (log : Log) (tx : TxSt) (rest : List Op)
    (hinv : ActiveInv cfg prog mi log tx) (hprog : tx.prog = .commit :: rest) (hown : tx.own.isEmpty = false)
    (hchk : (tx.rs.isEmpty || checkPreconditions cfg log tx) = true) :
    CommittedInv cfg prog mi (log ++ [tx.own])
      (push { tx with status := .committed (log.length + 1), prog := [] } (.committed (log.length + 1)))
      (log.length + 1) := by
  obtain ⟨k, hk, hp, htl, hnoend, hbd, hmi, hmo, hsim⟩ := hinv
  refine ⟨by omega, by simp, hmo, ?_⟩
  intro htail hpg
  rw [hprog] at hp
  obtain ⟨hklt, htake, hdrop⟩ := drop_cons_facts hp.symm
  have hsplit : prog = prog.take k ++ (Op.commit :: rest) := by
    rw [hp]; exact (List.take_append_drop k prog).symm
  -- the validation that just succeeded covers every snapshot
  have hval : Validates cfg (log ++ []) tx := by
    rw [List.append_nil]
    intro s hs
    rcases Bool.or_eq_true _ _ |>.mp hchk with he | hc
    · exact Or.inr (valSnap_empty cfg _ _ _ he)
    · exact checkSnaps_validates cfg _ log.length tx.rs tx.snaps hbd hc s hs
  have hlen : (prog.take k).length = tx.trace.length := by
    rw [List.length_take, htl]; omega
  have hpg' : pgetOwnFree (prog.take k) tx.trace = true := by
    have : pgetOwnFree (prog.take k ++ (Op.commit :: rest)) (tx.trace ++ [Res.committed (log.length + 1)]) = true := by
      rw [← hsplit]; exact hpg
    exact pgetOwnFree_prefix _ _ _ _ hlen this
  obtain ⟨hrel, _⟩ := hsim [] hval htail hpg'
  rw [List.append_nil] at hrel
  obtain ⟨ho, htr, _⟩ := hrel
  -- the solo run
  unfold soloTrace
  have htk : (log ++ [tx.own]).take (log.length + 1 - 1) = log := by
    simp
  rw [htk]
  rw [hsplit, soloOps_append cfg log _ _ _ hnoend]
  simp only [soloOps]
  have : (soloPart cfg log (prog.take k) { prog := prog.take k ++ Op.commit :: rest }).own.isEmpty = false := by
    rw [← hsplit, ← ho]; exact hown
  rw [← hsplit] at this ⊢
  simp only [this, Bool.false_eq_true, ↓reduceIte, push]
  rw [← htr]

/-! ## all schedules -/

def GInv (cfg : Cfg) (progs : List (List Op × Option Nat)) (s : Sys) : Prop :=
  (∀ t ∈ s.idx, t ≤ s.log.length) ∧
  ∀ (i : Nat) (tx : TxSt) (pm : List Op × Option Nat), s.txs[i]? = some tx → progs[i]? = some pm → TxInv cfg pm.1 pm.2 s.log tx

theorem setTx_get_ne (s : Sys) (i j : Nat) (tx : TxSt) (h : j ≠ i) : (setTx s i tx).txs[j]? = s.txs[j]? := by
  unfold setTx
  simp only []
  rw [List.getElem?_set_ne (by omega)]

theorem setTx_get_self (s : Sys) (i : Nat) (tx tx' : TxSt) (h : s.txs[i]? = some tx) :
    (setTx s i tx').txs[i]? = some tx' := by
  unfold setTx
  simp only []
  have hi : i < s.txs.length := by
    by_cases hi : i < s.txs.length
    · exact hi
    · rw [List.getElem?_eq_none (by omega)] at h; simp at h
  rw [List.getElem?_set_self hi]


theorem txInv_of_status_other {cfg : Cfg} {prog : List Op} {mi : Option Nat} {log : Log} {tx : TxSt}
    (h1 : tx.status ≠ .active) (h2 : ∀ n, tx.status ≠ .committed n) : TxInv cfg prog mi log tx := by
  unfold TxInv
  split
  · rename_i hs; exact absurd hs h1
  · rename_i n hs; exact absurd hs (h2 n)
  · trivial

theorem step_inactive (cfg : Cfg) (s : Sys) (i c : Nat) (tx : TxSt) (htx : s.txs[i]? = some tx)
    (h : tx.status ≠ .active) : step cfg s (.op i c) = s := by
  unfold step
  simp only [htx]
  cases hs : tx.status with
  | active => exact absurd hs h
  | committed n => rfl
  | conflict => rfl
  | cancelled => rfl
  | noEntries => rfl

theorem ginv_step (cfg : Cfg) (hU : cfg.U.Nodup) (progs : List (List Op × Option Nat)) (s : Sys) (st : Step)
    (h : GInv cfg progs s) : GInv cfg progs (step cfg s st) := by
  obtain ⟨hidx, htxs⟩ := h
  cases st with
  | wcommit ws =>
    unfold step
    by_cases hw : ws.isEmpty = true
    · simp only [hw, ↓reduceIte]; exact ⟨hidx, htxs⟩
    · simp only [hw]
      refine ⟨?_, ?_⟩
      · intro t ht
        have := hidx t ht
        show t ≤ (s.log ++ [ws]).length
        rw [List.length_append]; simp; omega
      · intro i tx pm h1 h2
        exact (htxs i tx pm h1 h2).grow [ws]
  | index j n =>
    unfold step
    refine ⟨?_, htxs⟩
    intro t ht
    rcases List.mem_or_eq_of_mem_set ht with h | h
    · exact hidx t h
    · rw [h]
      exact Nat.max_le.mpr ⟨getD_le_of_all hidx j, Nat.min_le_right _ _⟩
  | op i c =>
    cases htx : s.txs[i]? with
    | none =>
      have : step cfg s (.op i c) = s := by simp [step, htx]
      rw [this]; exact ⟨hidx, htxs⟩
    | some tx =>
      by_cases hact : tx.status = .active
      · cases hprog : tx.prog with
        | nil =>
          have : step cfg s (.op i c) = s := by simp [step, htx, hact, hprog]
          rw [this]; exact ⟨hidx, htxs⟩
        | cons op rest =>
          by_cases hc : op = .commit
          · -- the commit critical section
            subst hc
            have hstep : step cfg s (.op i c) = commitTx cfg s i { tx with prog := rest } := by
              simp [step, htx, hact, hprog]
            rw [hstep]
            unfold commitTx
            by_cases hown : tx.own.isEmpty = true
            · simp only [hown, ↓reduceIte]
              refine ⟨hidx, ?_⟩
              intro j txj pm h1 h2
              by_cases hj : j = i
              · subst hj
                rw [setTx_get_self s j tx _ htx] at h1
                injection h1 with h1
                subst h1
                exact txInv_of_status_other (by simp [push]) (by simp [push])
              · rw [setTx_get_ne s i j _ hj] at h1
                exact htxs j txj pm h1 h2
            · have hown' : tx.own.isEmpty = false := by simpa using hown
              simp only [hown', Bool.false_eq_true, ↓reduceIte]
              have hidx' : ∀ t ∈ (if tx.rs.isEmpty = true then s.idx else s.idx.map (fun t => max t s.log.length)),
                  t ≤ s.log.length := by
                intro t ht
                split at ht
                · exact hidx t ht
                · rw [List.mem_map] at ht
                  obtain ⟨a, ha, hat⟩ := ht
                  have := hidx a ha
                  omega
              split
              · rename_i hchk
                refine ⟨?_, ?_⟩
                · intro t ht
                  have := hidx' t ht
                  show t ≤ (s.log ++ [tx.own]).length
                  rw [List.length_append]; simp; omega
                · intro j txj pm h1 h2
                  by_cases hj : j = i
                  · subst hj
                    rw [setTx_get_self _ j tx _ (by exact htx)] at h1
                    injection h1 with h1
                    subst h1
                    have hinv := htxs j tx pm htx h2
                    unfold TxInv at hinv
                    rw [hact] at hinv
                    have := commit_inv cfg pm.1 pm.2 s.log tx rest hinv hprog hown' hchk
                    unfold TxInv
                    simp only [push]
                    exact this
                  · rw [setTx_get_ne _ i j _ hj] at h1
                    exact (htxs j txj pm h1 h2).grow [tx.own]
              · refine ⟨hidx', ?_⟩
                intro j txj pm h1 h2
                by_cases hj : j = i
                · subst hj
                  rw [setTx_get_self _ j tx _ (by exact htx)] at h1
                  injection h1 with h1
                  subst h1
                  exact txInv_of_status_other (by simp [push]) (by simp [push])
                · rw [setTx_get_ne _ i j _ hj] at h1
                  exact htxs j txj pm h1 h2
          · by_cases hcc : op = .cancel
            · subst hcc
              have hstep : step cfg s (.op i c) =
                  setTx s i (push { { tx with prog := rest } with status := .cancelled, prog := [] } .cancelled) := by
                simp [step, htx, hact, hprog]
              rw [hstep]
              refine ⟨hidx, ?_⟩
              intro j txj pm h1 h2
              by_cases hj : j = i
              · subst hj
                rw [setTx_get_self s j tx _ htx] at h1
                injection h1 with h1
                subst h1
                exact txInv_of_status_other (by simp [push]) (by simp [push])
              · rw [setTx_get_ne s i j _ hj] at h1
                exact htxs j txj pm h1 h2
            · have hne : notEnd op := ⟨hc, hcc⟩
              obtain ⟨idx', nb, hnb, hidx', hnbd, hstep⟩ := step_op_run cfg s i c tx op rest htx hact hprog hne hidx
              rw [hstep]
              refine ⟨hidx', ?_⟩
              intro j txj pm h1 h2
              by_cases hj : j = i
              · subst hj
                rw [setTx_get_self _ j tx _ (by exact htx)] at h1
                injection h1 with h1
                subst h1
                have hinv := htxs j tx pm htx h2
                unfold TxInv at hinv
                rw [hact] at hinv
                have := activeInv_step cfg hU pm.1 pm.2 s.log tx op rest nb hinv hprog hne hnb hnbd
                have hst' : (opStep cfg s.log { tx with prog := rest } nb op).status = .active := by
                  rw [(opStep_frame cfg s.log { tx with prog := rest } nb op).2]; exact hact
                show TxInv cfg pm.1 pm.2 s.log (opStep cfg s.log { tx with prog := rest } nb op)
                unfold TxInv
                rw [hst']
                exact this
              · rw [setTx_get_ne _ i j _ hj] at h1
                exact htxs j txj pm h1 h2
      · rw [step_inactive cfg s i c tx htx hact]; exact ⟨hidx, htxs⟩

theorem ginv_run (cfg : Cfg) (hU : cfg.U.Nodup) (progs : List (List Op × Option Nat)) :
    ∀ (sched : List Step) (s : Sys), GInv cfg progs s → GInv cfg progs (run cfg s sched) := by
  intro sched
  induction sched with
  | nil => intro s h; exact h
  | cons st rest ih =>
    intro s h
    unfold run
    simp only [List.foldl_cons]
    exact ih _ (ginv_step cfg hU progs s st h)

theorem ginv_init (cfg : Cfg) (progs : List (List Op × Option Nat)) : GInv cfg progs (initSys cfg progs) := by
  refine ⟨?_, ?_⟩
  · intro t ht
    simp [initSys] at ht
    omega
  · intro i tx pm h1 h2
    simp only [initSys, List.getElem?_map, h2, Option.map_some, Option.some.injEq] at h1
    subst h1
    unfold TxInv
    exact ActiveInv.init cfg pm.1 pm.2

end ImmuModel.Mvcc.SerialAux

namespace ImmuModel.Mvcc
open ImmuModel.Mvcc.SerialAux

/-- **Serializability in commit order** (for every schedule), under the side conditions of `Spec.lean`. -/
theorem serializable_of_inv (cfg : Cfg) (hU : cfg.U.Nodup) (progs : List (List Op × Option Nat)) (sched : List Step)
    (i n : Nat) (tx : TxSt) (prog : List Op) (mi : Option Nat)
    (hp : progs[i]? = some (prog, mi))
    (hi : (run cfg (initSys cfg progs) sched).txs[i]? = some tx)
    (hc : tx.status = .committed n)
    (htail : noOwnTail tx.rs = true)
    (hpg : pgetOwnFree prog tx.trace = true) :
    tx.trace = soloTrace cfg (run cfg (initSys cfg progs) sched).log (n - 1) prog := by
  have hg := ginv_run cfg hU progs sched _ (ginv_init cfg progs)
  have := hg.2 i tx (prog, mi) hi hp
  unfold TxInv at this
  rw [hc] at this
  exact this.2.2.2 htail hpg

/-- with the default `SnapshotMustIncludeTxID` the snapshots a transaction holds are never older than the ones it
acquired before.  (A fact about snapshot acquisition; `serializable_of_inv` no longer needs it since
`checkPreconditions` validates every snapshot it does not skip.) -/
theorem default_monotone_of_inv (cfg : Cfg) (hU : cfg.U.Nodup) (progs : List (List Op × Option Nat)) (sched : List Step)
    (i n : Nat) (tx : TxSt) (prog : List Op)
    (hp : progs[i]? = some (prog, none))
    (hi : (run cfg (initSys cfg progs) sched).txs[i]? = some tx)
    (hc : tx.status = .committed n) :
    snapMonotone tx.snaps = true := by
  have hg := ginv_run cfg hU progs sched _ (ginv_init cfg progs)
  have := hg.2 i tx (prog, none) hi hp
  unfold TxInv at this
  rw [hc] at this
  exact this.2.2.1 rfl

end ImmuModel.Mvcc
