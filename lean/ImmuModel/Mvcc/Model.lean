/-
MVCC model shared by C05 (serializability in commit order) and C06 (linearizable KV API).
Core Lean only (the driver links this file).

What is mirrored (embedded/store):
* `ongoing_tx.go`   `snap()` (one snapshot per index, acquired lazily, kept in acquisition order),
                    `set`, `Delete`, `GetWithFilters`, `GetWithPrefixAndFilters`, `MarkPrefixScanned`,
                    `checkPreconditions` (loop over the tx's snapshots, a snapshot with
                    `txSnap.Ts() > LastPrecommittedTxID()` is skipped with `continue`, expected gets /
                    prefix gets / readers / prefix fingerprints),
* `ongoing_tx_keyreader.go`  `ongoingTxKeyReader.ReadBetween` (every raw row is recorded, filters and
                    offset are applied by the wrapper, `skipped` is NOT cleared by `Reset`),
* `immustore.go`    `precommit` : under `s.mutex`  wait-for-indexing(up to the last precommitted tx) ;
                    `checkPreconditions` ; append with the next id.
* `key_reader.go`   filters are applied to the RAW index value in point reads (so an own write always
                    passes them) but to the INTERCEPTED value in readers.

What is imported as a specification (C10/C04 own it; the correspondence replays every read):
the index as a multi-version map.  `viewGet log t k` is the newest version of `k` among the
transactions `1..t`; a reader enumerates the keys of a fixed, strictly sorted key universe `U`
(`Cfg.U`, it contains every key the programs use) that are present and in range.  All scans are
filters of the same list, so no sortedness argument is needed in the proofs; `U` being sorted matters
only for fidelity and is exercised by the correspondence.

Atomic steps and the lock that justifies each:
* `Step.op i c`      one API call of transaction `i`.  It touches only the tx's own (goroutine-local)
                     state and persistent snapshots.  If the call needs a snapshot of an index the
                     tx does not hold yet, the snapshot is taken in the same step
                     (`tbtree.SnapshotMustIncludeTsWithRenewalPeriod` under `t.rwmutex`): ANY root
                     with `mustInclude ≤ ts ≤ indexed ts` can be returned (re-use of `lastSnapRoot`),
                     `c` is that choice.  Waiting for the index (`WaitForIndexingUpto`) is modelled
                     by forcing the index forward, which is the same as inserting the always-enabled
                     `Step.index` steps in front.
* `Step.op i c` with the op `commit`   `ImmuStore.precommit` from `s.mutex.Lock()` to the return:
                     wait-for-index, `checkPreconditions`, `performPrecommit` (id := last + 1).
* `Step.wcommit ws`  a write-only transaction without preconditions (same critical section).
* `Step.index j n`   the indexer of index `j` inserts a bulk (tbtree `BulkInsert` under `t.rwmutex`).
-/
import ImmuModel.Base.Bytes
import ImmuModel.Base.Lex
import ImmuModel.Gen.Consts

namespace ImmuModel.Mvcc

/-! ## committed log and index views -/

structure Entry where
  key : Bytes
  val : Bytes
  del : Bool
deriving DecidableEq, Repr, Inhabited

abbrev WriteSet := List Entry
/-- transaction `n` (1-based id) is `log[n-1]`. -/
abbrev Log := List WriteSet

/-- What an index lookup returns. `tx = 0` denotes a write of the ongoing transaction
(`ongoingValRef.Tx()` returns 0). -/
structure Ver where
  tx : Nat
  val : Bytes
  del : Bool
deriving DecidableEq, Repr, Inhabited

def wsGet (ws : WriteSet) (k : Bytes) : Option Entry := ws.find? (fun e => e.key == k)

/-- `LogView t`: the newest version of `k` among the transactions `1..t`. -/
def viewGet (log : Log) : Nat → Bytes → Option Ver
  | 0, _ => none
  | t + 1, k =>
    match log[t]? with
    | some ws =>
      match wsGet ws k with
      | some e => some ⟨t + 1, e.val, e.del⟩
      | none => viewGet log t k
    | none => viewGet log t k

/-- `tx.entries[keyRef] = e` for a key already written, `append` otherwise. -/
def upsert (ws : WriteSet) (e : Entry) : WriteSet :=
  if ws.any (fun x => x.key == e.key) then ws.map (fun x => if x.key == e.key then e else x)
  else ws ++ [e]

/-- the tx's snapshot of an index with its own writes (`refInterceptor`). -/
def txLook (log : Log) (base : Nat) (own : WriteSet) (k : Bytes) : Option Ver :=
  match wsGet own k with
  | some e => some ⟨0, e.val, e.del⟩
  | none => viewGet log base k

def hasPrefix (k p : Bytes) : Bool := p.isPrefixOf k

def lexLe (a b : Bytes) : Bool := !lexLt b a

/-! ## readers -/

structure ScanSpec where
  seek : Bytes := []
  endK : Bytes := []
  pfx : Bytes := []
  inclSeek : Bool := false
  inclEnd : Bool := false
  desc : Bool := false
  offset : Nat := 0
  /-- `Filters = [IgnoreExpired, IgnoreDeleted]` (true) or none (false); nothing expires in the model. -/
  ignDel : Bool := true
deriving DecidableEq, Repr, Inhabited

/-- `greatestKeyOfSize(maxKeySize)` with the prefix copied over its head. -/
def greatest (maxKey : Nat) (p : Bytes) : Bytes := p ++ List.replicate (maxKey - p.length) 255

/-- The keys a `tbtree.Reader` built by `Snapshot.NewReader(spec)` can return: prefix match and the
seek / end bounds AFTER the adjustments `NewReader` applies (`seekKey < prefix ⇒ prefix, inclusive`,
`endKey` empty or beyond the greatest prefixed key ⇒ that key, inclusive; mirrored for descending). -/
def inRange (maxKey : Nat) (s : ScanSpec) (k : Bytes) : Bool :=
  let g := greatest maxKey s.pfx
  let seekOk :=
    if s.desc then
      if s.seek.isEmpty || lexLt g s.seek then lexLe k g
      else lexLt k s.seek || (s.inclSeek && k == s.seek)
    else
      if lexLt s.seek s.pfx then lexLe s.pfx k
      else lexLt s.seek k || (s.inclSeek && k == s.seek)
  let endOk :=
    if s.desc then
      if lexLt s.endK s.pfx then lexLe s.pfx k
      else if s.endK.isEmpty then true
      else lexLt s.endK k || (s.inclEnd && k == s.endK)
    else
      if s.endK.isEmpty || lexLt g s.endK then lexLe k g
      else lexLt k s.endK || (s.inclEnd && k == s.endK)
  hasPrefix k s.pfx && seekOk && endOk

/-- The raw row stream of a reader over a lookup function: keys of the universe in scan order that are
in range and present.  Deleted entries ARE part of the raw stream (they are index values). -/
def rawScan (U : List Bytes) (maxKey : Nat) (s : ScanSpec) (look : Bytes → Option Ver) : List (Bytes × Ver) :=
  (if s.desc then U.reverse else U).filterMap fun k =>
    if inRange maxKey s k then (look k).map (fun v => (k, v)) else none

/-- one recorded raw read of `ongoingTxKeyReader` (`expectedRead`). -/
inductive ExpRead where
  | entry (k : Bytes) (tx : Nat)
  | noMore
deriving DecidableEq, Repr, Inhabited

/-- One `ongoingTxKeyReader.Read()` call: loops over raw rows, RECORDS each of them, applies the filter
and the offset itself.  Returns (row handed to the caller or none = ErrNoMoreEntries, recorded reads,
rest of the raw stream, skipped'). -/
def readOne (ignDel : Bool) (offset : Nat) :
    List (Bytes × Ver) → Nat → Option (Bytes × Ver) × List ExpRead × List (Bytes × Ver) × Nat
  | [], sk => (none, [ExpRead.noMore], [], sk)
  | (k, v) :: rest, sk =>
    if ignDel && v.del then
      let r := readOne ignDel offset rest sk
      (r.1, ExpRead.entry k v.tx :: r.2.1, r.2.2.1, r.2.2.2)
    else if sk < offset then
      let r := readOne ignDel offset rest (sk + 1)
      (r.1, ExpRead.entry k v.tx :: r.2.1, r.2.2.1, r.2.2.2)
    else (some (k, v), [ExpRead.entry k v.tx], rest, sk)

/-- `n` successive `Read()` calls; the program stops at the first ErrNoMoreEntries.
Returns (rows, recorded reads, skipped'). -/
def readSeg (ignDel : Bool) (offset : Nat) : Nat → List (Bytes × Ver) → Nat →
    List (Bytes × Ver) × List ExpRead × Nat
  | 0, _, sk => ([], [], sk)
  | n + 1, raw, sk =>
    let r := readOne ignDel offset raw sk
    match r.1 with
    | none => ([], r.2.1, r.2.2.2)
    | some row =>
      let r' := readSeg ignDel offset n r.2.2.1 r.2.2.2
      (row :: r'.1, r.2.1 ++ r'.2.1, r'.2.2)

/-- segments separated by `Reset()`: the raw stream restarts, `skipped` is carried over
(`ongoingTxKeyReader.Reset` does not clear it). -/
def readSegs (ignDel : Bool) (offset : Nat) (raw : List (Bytes × Ver)) :
    List Nat → Nat → List (List (Bytes × Ver)) × List (List ExpRead)
  | [], _ => ([], [])
  | n :: ns, sk =>
    let r := readSeg ignDel offset n raw sk
    let r' := readSegs ignDel offset raw ns r.2.2
    (r.1 :: r'.1, r.2.1 :: r'.2)

/-! ## the read-set -/

structure ExpGet where
  key : Bytes
  ignDel : Bool
  tx : Nat
deriving DecidableEq, Repr, Inhabited

structure ExpPGet where
  pfx : Bytes
  neq : Bytes
  ignDel : Bool
  key : Bytes
  tx : Nat
deriving DecidableEq, Repr, Inhabited

structure ExpReader where
  spec : ScanSpec
  reads : List (List ExpRead)
deriving DecidableEq, Repr, Inhabited

/-- sha256 over (len key, key, tx) is idealised as the list itself (collision-free). -/
structure ExpFP where
  spec : ScanSpec
  fp : List (Bytes × Nat)
deriving DecidableEq, Repr, Inhabited

structure ReadSet where
  gets : List ExpGet := []
  pgets : List ExpPGet := []
  readers : List ExpReader := []
  fps : List ExpFP := []
deriving DecidableEq, Repr, Inhabited

def ReadSet.isEmpty (rs : ReadSet) : Bool :=
  rs.gets.isEmpty && rs.pgets.isEmpty && rs.readers.isEmpty && rs.fps.isEmpty

/-! ## point reads on a lookup function -/

/-- `Snapshot.GetWithFilters` BEFORE the interceptor: not-found, or filtered out, or the version. -/
def getF (look : Bytes → Option Ver) (k : Bytes) (ignDel : Bool) : Option Ver :=
  match look k with
  | none => none
  | some v => if ignDel && v.del then none else some v

/-- `tbtree.Snapshot.GetWithPrefix(prefix, neq)`: the first key (ascending) that carries the prefix and,
when `neq` is not empty, is greater than `neq`.  (The code seeks the first key with `prefix ≤ key`,
`neq < key` and then tests the prefix; on a sorted key set the two coincide because the keys carrying a
prefix are contiguous and start at the prefix.) -/
def firstWithPrefix (U : List Bytes) (look : Bytes → Option Ver) (p neq : Bytes) : Option (Bytes × Ver) :=
  (U.filterMap (fun k =>
      if hasPrefix k p && (neq.isEmpty || lexLt neq k) then (look k).map (fun v => (k, v)) else none)).head?

/-- `Snapshot.GetWithPrefixAndFilters` before the interceptor: a filtered first key is NOT skipped. -/
def pgetF (U : List Bytes) (look : Bytes → Option Ver) (p neq : Bytes) (ignDel : Bool) : Option (Bytes × Ver) :=
  match firstWithPrefix U look p neq with
  | none => none
  | some (k, v) => if ignDel && v.del then none else some (k, v)

/-! ## transactions -/

inductive Op where
  | get (k : Bytes) (ignDel : Bool)
  | getPrefix (p neq : Bytes) (ignDel : Bool)
  /-- open a reader, `segs = [n₁, n₂, …]`: `n₁` Read calls, Reset, `n₂` Read calls, … ; close. -/
  | scan (spec : ScanSpec) (segs : List Nat)
  | markPrefix (spec : ScanSpec)
  | set (k v : Bytes)
  | delete (k : Bytes)
  | commit
  | cancel
deriving DecidableEq, Repr, Inhabited

inductive Res where
  | found (k : Bytes) (v : Ver)
  | notFound
  | rows (segs : List (List (Bytes × Ver)))
  | ok
  | committed (id : Nat)
  | conflict
  | cancelled
  | closed
  | noEntries
  | noIndex
deriving DecidableEq, Repr, Inhabited

inductive Status where
  | active
  | committed (id : Nat)
  | conflict
  | cancelled
  | noEntries
deriving DecidableEq, Repr, Inhabited

/-- one entry of `tx.snapshots`; `wrote` ⇔ `Snapshot.set` was called on it (then `Ts() = base + 1`). -/
structure Snap where
  pfx : Bytes
  base : Nat
  wrote : Bool
deriving DecidableEq, Repr, Inhabited

def Snap.ts (s : Snap) : Nat := if s.wrote then s.base + 1 else s.base

structure TxSt where
  prog : List Op
  /-- `TxOptions.SnapshotMustIncludeTxID`: `none` = default (`lastPrecommittedTxID`), `some n` = constant `n`. -/
  mustIncl : Option Nat := none
  snaps : List Snap := []
  own : WriteSet := []
  rs : ReadSet := {}
  status : Status := .active
  trace : List Res := []
deriving DecidableEq, Repr, Inhabited

structure Cfg where
  /-- target prefixes of the indexes (pairwise not prefixes of each other) -/
  idxs : List Bytes
  /-- key universe: strictly sorted, contains every key used -/
  U : List Bytes
  /-- `store.DefaultMaxKeyLen` = tbtree `maxKeySize` (regenerated from /repo) -/
  maxKey : Nat := ImmuModel.Gen.storeMaxKeyLen
deriving Repr, Inhabited

/-- position of the index serving `key` (`getIndexerFor`). -/
def idxFor (cfg : Cfg) (key : Bytes) : Option Nat :=
  cfg.idxs.findIdx? (fun p => hasPrefix key p)

/-- the key / prefix an op hands to `tx.snap(…)`. -/
def Op.snapKey : Op → Option Bytes
  | .get k _ => some k
  | .getPrefix p _ _ => some p
  | .scan s _ => some s.pfx
  | .markPrefix s => some s.pfx
  | .set k _ => some k
  | .delete k => some k
  | .commit => none
  | .cancel => none

/-- `tx.snap(key)`: the first held snapshot whose prefix matches. -/
def heldSnap (snaps : List Snap) (key : Bytes) : Option Snap :=
  snaps.find? (fun s => hasPrefix key s.pfx)

def markWrote (snaps : List Snap) (key : Bytes) : List Snap :=
  match snaps with
  | [] => []
  | s :: rest => if hasPrefix key s.pfx then { s with wrote := true } :: rest else s :: markWrote rest key

/-! ## checkPreconditions (MVCC part) -/

/-- validation of one `[]expectedRead` against the raw stream of the up-to-date snapshot.
`held` mirrors the `key`/`valRef` variables kept across iterations. -/
def valSeg : List ExpRead → Option (Bytes × Nat) → List (Bytes × Nat) → Bool
  | [], _, _ => true
  | e :: es, held, c =>
    let cur : Option (Bytes × Nat) := match held with
      | some h => some h
      | none => c.head?
    let c' : List (Bytes × Nat) := match held with
      | some _ => c
      | none => c.tail
    match e with
    | .noMore => cur.isNone
    | .entry k t =>
      if t == 0 then
        match cur with
        | some (ck, ct) => if ck == k then valSeg es none c' else valSeg es (some (ck, ct)) c'
        | none => valSeg es none c'
      else
        match cur with
        | none => false
        | some (ck, ct) => if ck == k && ct == t then valSeg es none c' else false

def keyTx (raw : List (Bytes × Ver)) : List (Bytes × Nat) := raw.map (fun r => (r.1, r.2.tx))

def valGet (look : Bytes → Option Ver) (e : ExpGet) : Bool :=
  match getF look e.key e.ignDel with
  | none => e.tx == 0
  | some v => e.tx == v.tx

def valPGet (U : List Bytes) (look : Bytes → Option Ver) (e : ExpPGet) : Bool :=
  match pgetF U look e.pfx e.neq e.ignDel with
  | none => e.tx == 0
  | some (k, v) => e.key == k && e.tx == v.tx

def valReader (cfg : Cfg) (look : Bytes → Option Ver) (e : ExpReader) : Bool :=
  let c := keyTx (rawScan cfg.U cfg.maxKey e.spec look)
  e.reads.all (fun seg => valSeg seg none c)

def valFP (cfg : Cfg) (look : Bytes → Option Ver) (e : ExpFP) : Bool :=
  keyTx (rawScan cfg.U cfg.maxKey e.spec look) == e.fp

/-- everything recorded under one snapshot prefix is re-checked on `look` (the sync snapshot). -/
def valSnap (cfg : Cfg) (look : Bytes → Option Ver) (rs : ReadSet) (pfx : Bytes) : Bool :=
  (rs.gets.all fun e => !hasPrefix e.key pfx || valGet look e) &&
  (rs.pgets.all fun e => !hasPrefix e.pfx pfx || valPGet cfg.U look e) &&
  (rs.readers.all fun e => !hasPrefix e.spec.pfx pfx || valReader cfg look e) &&
  (rs.fps.all fun e => !hasPrefix e.spec.pfx pfx || valFP cfg look e)

/-- the loop over `tx.snapshots`: a snapshot with `Ts() > LastPrecommittedTxID()` (taken at the last
precommitted tx and written to) is skipped (`continue`), every other one is validated.
`true` = no read conflict. -/
def checkSnaps (cfg : Cfg) (look : Bytes → Option Ver) (lastPre : Nat) (rs : ReadSet) : List Snap → Bool
  | [] => true
  | s :: rest =>
    if s.ts > lastPre then checkSnaps cfg look lastPre rs rest
    else if valSnap cfg look rs s.pfx then checkSnaps cfg look lastPre rs rest
    else false

def checkPreconditions (cfg : Cfg) (log : Log) (tx : TxSt) : Bool :=
  checkSnaps cfg (viewGet log log.length) log.length tx.rs tx.snaps

/-! ## executing one API call of a transaction -/

def snapOf (tx : TxSt) (key : Bytes) (pfx : Bytes) (newBase : Nat) : Snap × List Snap :=
  match heldSnap tx.snaps key with
  | some s => (s, tx.snaps)
  | none => let s : Snap := ⟨pfx, newBase, false⟩; (s, tx.snaps ++ [s])

def push (tx : TxSt) (r : Res) : TxSt := { tx with trace := tx.trace ++ [r] }

/-- `OngoingTx.GetWithFilters` : (tx with the read-set entry added, result). -/
def execGet (log : Log) (tx : TxSt) (pfx : Bytes) (newBase : Nat) (k : Bytes) (ignDel : Bool) : TxSt × Res :=
  let (sn, snaps) := snapOf tx k pfx newBase
  let tx := { tx with snaps := snaps }
  match wsGet tx.own k with
  | some e => (tx, .found k ⟨0, e.val, e.del⟩)     -- the placeholder passes the filters; no read-set entry
  | none =>
    match getF (viewGet log sn.base) k ignDel with
    | none => ({ tx with rs := { tx.rs with gets := tx.rs.gets ++ [⟨k, ignDel, 0⟩] } }, .notFound)
    | some v => ({ tx with rs := { tx.rs with gets := tx.rs.gets ++ [⟨k, ignDel, v.tx⟩] } }, .found k v)

/-- the raw index value the filters of a point read see: an own write is a placeholder without metadata. -/
def rawLook (log : Log) (base : Nat) (own : WriteSet) (k : Bytes) : Option Ver :=
  match wsGet own k with
  | some e => some ⟨0, e.val, false⟩
  | none => viewGet log base k

/-- `OngoingTx.GetWithPrefixAndFilters`. -/
def execPGet (cfg : Cfg) (log : Log) (tx : TxSt) (pfx : Bytes) (newBase : Nat) (p neq : Bytes) (ignDel : Bool) :
    TxSt × Res :=
  let (sn, snaps) := snapOf tx p pfx newBase
  let tx := { tx with snaps := snaps }
  match pgetF cfg.U (rawLook log sn.base tx.own) p neq ignDel with
  | none => ({ tx with rs := { tx.rs with pgets := tx.rs.pgets ++ [⟨p, neq, ignDel, [], 0⟩] } }, .notFound)
  | some (k, v) =>
    if v.tx == 0 then
      -- an own write: intercepted, `Tx() = 0`, NO read-set entry
      match wsGet tx.own k with
      | some e => (tx, .found k ⟨0, e.val, e.del⟩)
      | none => (tx, .found k v)
    else ({ tx with rs := { tx.rs with pgets := tx.rs.pgets ++ [⟨p, neq, ignDel, k, v.tx⟩] } }, .found k v)

/-- `NewKeyReader` + the Read / Reset calls + Close. -/
def execScan (cfg : Cfg) (log : Log) (tx : TxSt) (pfx : Bytes) (newBase : Nat) (spec : ScanSpec) (segs : List Nat) :
    TxSt × Res :=
  let (sn, snaps) := snapOf tx spec.pfx pfx newBase
  let tx := { tx with snaps := snaps }
  let raw := rawScan cfg.U cfg.maxKey spec (txLook log sn.base tx.own)
  let r := readSegs spec.ignDel spec.offset raw segs 0
  ({ tx with rs := { tx.rs with readers := tx.rs.readers ++ [⟨spec, r.2⟩] } }, .rows r.1)

/-- `MarkPrefixScanned`. -/
def execMark (cfg : Cfg) (log : Log) (tx : TxSt) (pfx : Bytes) (newBase : Nat) (spec : ScanSpec) : TxSt × Res :=
  let (sn, snaps) := snapOf tx spec.pfx pfx newBase
  let tx := { tx with snaps := snaps }
  let raw := rawScan cfg.U cfg.maxKey spec (txLook log sn.base tx.own)
  ({ tx with rs := { tx.rs with fps := tx.rs.fps ++ [⟨spec, keyTx raw⟩] } }, .ok)

/-- `tx.set` for an indexable, non-transient entry. -/
def execSet (tx : TxSt) (pfx : Bytes) (newBase : Nat) (e : Entry) : TxSt :=
  let (_, snaps) := snapOf tx e.key pfx newBase
  { tx with snaps := markWrote snaps e.key, own := upsert tx.own e }

/-- one API call that is not `commit` / `cancel`: (new tx state, result handed to the program).
`pfx` = target prefix of the index serving the call (the caller looked it up), `newBase` = ts of the
snapshot handed out IF this call has to acquire one. -/
def execOp (cfg : Cfg) (log : Log) (tx : TxSt) (pfx : Bytes) (newBase : Nat) : Op → TxSt × Res
  | .get k ignDel => execGet log tx pfx newBase k ignDel
  | .getPrefix p neq ignDel => execPGet cfg log tx pfx newBase p neq ignDel
  | .scan spec segs => execScan cfg log tx pfx newBase spec segs
  | .markPrefix spec => execMark cfg log tx pfx newBase spec
  | .set k v => (execSet tx pfx newBase ⟨k, v, false⟩, .ok)
  | .delete k =>
    -- tx.Delete = Get(key) ; refuse if not found or already deleted by this tx ; Set(key, deleted)
    match execGet log tx pfx newBase k true with
    | (tx1, .found _ v) => if v.del then (tx1, .notFound) else (execSet tx1 pfx newBase ⟨k, [], true⟩, .ok)
    | (tx1, _) => (tx1, .notFound)
  | .commit => (tx, .closed)
  | .cancel => (tx, .closed)

def execPush (cfg : Cfg) (log : Log) (tx : TxSt) (pfx : Bytes) (newBase : Nat) (op : Op) : TxSt :=
  let r := execOp cfg log tx pfx newBase op
  push r.1 r.2

/-! ## the concurrent system -/

structure Sys where
  log : Log := []
  /-- indexed ts per index (same order as `Cfg.idxs`) -/
  idx : List Nat
  txs : List TxSt
deriving Repr, Inhabited

inductive Step where
  | op (i : Nat) (choice : Nat)
  | wcommit (ws : WriteSet)
  | index (j : Nat) (n : Nat)
deriving DecidableEq, Repr, Inhabited

def clamp (lo hi c : Nat) : Nat := max lo (min c hi)

/-- snapshot acquisition on index `j`: wait until `mustInclude` is indexed, then any root in
`[mustInclude, indexed ts]`. Returns (idx', base). -/
def acquire (s : Sys) (tx : TxSt) (j : Nat) (choice : Nat) : List Nat × Nat :=
  let last := s.log.length
  let mi := match tx.mustIncl with
    | none => last
    | some n => min n last
  let cur := s.idx.getD j 0
  let cur' := max cur mi
  (s.idx.set j cur', clamp mi cur' choice)

def setTx (s : Sys) (i : Nat) (tx : TxSt) : Sys := { s with txs := s.txs.set i tx }

/-- `precommit` for a read-write tx: under `s.mutex`. -/
def commitTx (cfg : Cfg) (s : Sys) (i : Nat) (tx : TxSt) : Sys :=
  if tx.own.isEmpty then
    setTx s i (push { tx with status := .noEntries, prog := [] } .noEntries)
  else
    let last := s.log.length
    -- hasPreconditions ⇒ WaitForIndexingUpto(currPrecommittedTxID): every index is forced up to `last`
    let idx' := if tx.rs.isEmpty then s.idx else s.idx.map (fun t => max t last)
    if tx.rs.isEmpty || checkPreconditions cfg s.log tx then
      setTx { s with log := s.log ++ [tx.own], idx := idx' } i
        (push { tx with status := .committed (last + 1), prog := [] } (.committed (last + 1)))
    else
      setTx { s with idx := idx' } i (push { tx with status := .conflict, prog := [] } .conflict)

def step (cfg : Cfg) (s : Sys) : Step → Sys
  | .wcommit ws => if ws.isEmpty then s else { s with log := s.log ++ [ws] }
  | .index j n =>
    let cur := s.idx.getD j 0
    { s with idx := s.idx.set j (max cur (min n s.log.length)) }
  | .op i choice =>
    match s.txs[i]? with
    | none => s
    | some tx =>
      match tx.status, tx.prog with
      | .active, op :: rest =>
        let tx := { tx with prog := rest }
        match op with
        | .commit => commitTx cfg s i tx
        | .cancel => setTx s i (push { tx with status := .cancelled, prog := [] } .cancelled)
        | op =>
          match op.snapKey with
          | none => s
          | some key =>
            match idxFor cfg key with
            | none => setTx s i (push tx .noIndex)
            | some j =>
              let pfx := cfg.idxs.getD j []
              match heldSnap tx.snaps key with
              | some _ => setTx s i (execPush cfg s.log tx pfx 0 op)
              | none =>
                let (idx', base) := acquire s tx j choice
                setTx { s with idx := idx' } i (execPush cfg s.log tx pfx base op)
      | _, _ => s

def run (cfg : Cfg) (s : Sys) (sched : List Step) : Sys := sched.foldl (step cfg) s

def initSys (cfg : Cfg) (progs : List (List Op × Option Nat)) : Sys :=
  { log := [], idx := cfg.idxs.map (fun _ => 0),
    txs := progs.map (fun p => { prog := p.1, mustIncl := p.2 }) }

/-! ## the serial reference: a program run alone on `LogView n` (every snapshot is fresh) -/

def soloOps (cfg : Cfg) (log : Log) : List Op → TxSt → TxSt
  | [], tx => tx
  | op :: rest, tx =>
    match op with
    | .commit =>
      if tx.own.isEmpty then push { tx with status := .noEntries } .noEntries
      else push { tx with status := .committed (log.length + 1) } (.committed (log.length + 1))
    | .cancel => push { tx with status := .cancelled } .cancelled
    | op =>
      match op.snapKey with
      | none => soloOps cfg log rest tx
      | some key =>
        match idxFor cfg key with
        | none => soloOps cfg log rest (push tx .noIndex)
        | some j => soloOps cfg log rest (execPush cfg log tx (cfg.idxs.getD j []) log.length op)

/-- results of `prog` run alone on the state produced by the transactions `1..n`. -/
def soloTrace (cfg : Cfg) (log : Log) (n : Nat) (prog : List Op) : List Res :=
  (soloOps cfg (log.take n) prog { prog := prog }).trace

end ImmuModel.Mvcc
