/-
Decidable side conditions used by the C05 / C06 property statements (core Lean only).
They describe WHEN the validation performed by `checkPreconditions` is sound; each excluded case has a
witness theorem in `Props/C05.lean` showing that the exclusion is necessary (a finding).
-/
import ImmuModel.Mvcc.Model
import ImmuModel.Mvcc.Linearize

namespace ImmuModel.Mvcc

/-- a recorded reader segment does not END with a row written by the transaction itself.
(`checkPreconditions` leaves the row it holds uncompared when the expected read is an own write
and it is the last expected read of the segment.) -/
def goodTail (seg : List ExpRead) : Bool :=
  match seg.getLast? with
  | some (.entry _ 0) => false
  | _ => true

def noOwnTail (rs : ReadSet) : Bool := rs.readers.all fun r => r.reads.all goodTail

/-- no `GetWithPrefix` call returned a write of the transaction itself (such a call records nothing). -/
def pgetOwnFree : List Op → List Res → Bool
  | .getPrefix _ _ _ :: ops, .found _ v :: rs => v.tx != 0 && pgetOwnFree ops rs
  | _ :: ops, _ :: rs => pgetOwnFree ops rs
  | _, _ => true

/-- snapshots acquired later are not older (true for the default `SnapshotMustIncludeTxID`).
No longer a side condition of `serializable_partial`: it was needed only while `checkPreconditions` stopped at
the first up-to-date snapshot (DESIGN K8, repaired). -/
def snapMonotone : List Snap → Bool
  | [] => true
  | s :: rest => rest.all (fun r => s.base ≤ r.base) && snapMonotone rest

end ImmuModel.Mvcc
