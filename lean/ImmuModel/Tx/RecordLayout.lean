/-
C09 — the field order and widths the model `Tx/Record.lean` uses, in the vocabulary of the
regenerated `Gen/TxLayout.lean` ((width, field id); width 0 = byte string), built from the same
regenerated size constants the model's `serialize*` / `read*` functions use.  `Props/C09.lean`
proves by `decide` that the source (performPrecommit writes, readHeader/readEntry reads) has
exactly this order: a reordered, added, removed or re-typed field breaks the build.
-/
import ImmuModel.Gen.Consts
import ImmuModel.Gen.TxLayout

namespace ImmuModel.Tx.Layout
open ImmuModel

/-- `serializeHeader`: common prefix, then the version-0 tail, then the version-1 tail
(both `switch` cases appear in source order). -/
def headerFields : List (Nat × Nat) :=
  [(Gen.storeTxIDSize, 1), (Gen.storeTsSize, 2), (Gen.storeTxIDSize, 3), (0, 4), (0, 5), (Gen.storeSszSize, 6),
   (Gen.storeSszSize, 7),
   (Gen.storeSszSize, 8), (0, 9), (Gen.storeLszSize, 7)]

/-- `serializeEntry`. -/
def entryFields : List (Nat × Nat) :=
  [(Gen.storeSszSize, 10), (0, 11), (Gen.storeSszSize, 12), (0, 13), (Gen.storeLszSize, 14), (Gen.storeOffsetSize, 15), (0, 16)]

def trailerFields : List (Nat × Nat) := [(0, 17)]

def recordFields : List (Nat × Nat) := headerFields ++ entryFields ++ trailerFields

end ImmuModel.Tx.Layout
