/-
C09 — proofs about sequential scans (`Tx/Scan.lean`).  Core Lean only.
-/
import ImmuModel.Tx.Scan
import ImmuModel.Tx.RecordAuth

namespace ImmuModel.Tx.Rec
open ImmuModel.Merkle
variable {D : Type} [DecidableEq D]

/-- What a successful ascending step tells us. -/
theorem scanStepAsc_ok (hs : HsD D) (lim : Limits) (cur : Option D) (s : Bytes) (r : Record D) (c : D)
    (h : scanStepAsc hs lim cur s = .ok (r, c)) :
    parseTx hs lim s = .ok r ∧ c = r.storedAlh ∧ ∀ c0, cur = some c0 → r.hdr.prevAlh = c0 := by
  unfold scanStepAsc at h
  cases hp : parseTx hs lim s with
  | error e => rw [hp] at h; cases h
  | ok r1 =>
    rw [hp] at h
    cases cur with
    | none =>
      simp only [Except.ok.injEq, Prod.mk.injEq] at h
      obtain ⟨h1, h2⟩ := h
      subst h1
      exact ⟨rfl, h2.symm, fun _ hc => by cases hc⟩
    | some c1 =>
      simp only at h
      by_cases hc : c1 = r1.hdr.prevAlh
      · rw [if_pos hc] at h
        simp only [Except.ok.injEq, Prod.mk.injEq] at h
        obtain ⟨h1, h2⟩ := h
        subst h1
        refine ⟨rfl, h2.symm, ?_⟩
        intro c0 h0
        cases h0
        exact hc.symm
      · rw [if_neg hc] at h
        cases h

theorem scanAsc_linked_aux (hs : HsD D) (lim : Limits) :
    ∀ (ss : List Bytes) (cur : Option D) (rs : List (Record D)),
      scanAsc hs lim cur ss = .ok rs →
      rs.length = ss.length ∧ Linked rs ∧
      (∀ r ∈ rs, ∃ s ∈ ss, parseTx hs lim s = .ok r) ∧
      (∀ c, cur = some c → ∀ r0, rs.head? = some r0 → r0.hdr.prevAlh = c) := by
  intro ss
  induction ss with
  | nil =>
    intro cur rs h
    simp only [scanAsc, Except.ok.injEq] at h
    subst h
    refine ⟨rfl, trivial, ?_, ?_⟩
    · intro r hr; cases hr
    · intro c _ r0 h0; cases h0
  | cons s rest ih =>
    intro cur rs h
    simp only [scanAsc] at h
    cases hstep : scanStepAsc hs lim cur s with
    | error e => rw [hstep] at h; cases h
    | ok p =>
      obtain ⟨r, c⟩ := p
      rw [hstep] at h
      simp only at h
      cases hrest : scanAsc hs lim (some c) rest with
      | error e => rw [hrest] at h; cases h
      | ok rs1 =>
        rw [hrest] at h
        simp only [Except.ok.injEq] at h
        subst h
        obtain ⟨hp, hc, hprev⟩ := scanStepAsc_ok hs lim cur s r c hstep
        obtain ⟨hlen, hlk, hmem, hhd⟩ := ih (some c) rs1 hrest
        refine ⟨by simp [hlen], ?_, ?_, ?_⟩
        · cases rs1 with
          | nil => trivial
          | cons b tl =>
            refine ⟨?_, hlk⟩
            rw [← hc]
            exact hhd c rfl b rfl
        · intro r' hr'
          rcases List.mem_cons.mp hr' with h1 | h1
          · subst h1
            exact ⟨s, List.mem_cons_self, hp⟩
          · obtain ⟨s', hs', hp'⟩ := hmem r' h1
            exact ⟨s', List.mem_cons_of_mem _ hs', hp'⟩
        · intro c0 hc0 r0 h0
          simp only [List.head?_cons, Option.some.injEq] at h0
          subst h0
          exact hprev c0 hc0

/-- A successful ascending scan returns one accepted record per stream, linked by PrevAlh. -/
theorem scanAsc_linked_thm (hs : HsD D) (lim : Limits) (ss : List Bytes) (rs : List (Record D))
    (h : scanAsc hs lim none ss = .ok rs) :
    rs.length = ss.length ∧ Linked rs ∧
    ∀ r ∈ rs, ∃ s ∈ ss, parseTx hs lim s = .ok r := by
  obtain ⟨h1, h2, h3, _⟩ := scanAsc_linked_aux hs lim ss none rs h
  exact ⟨h1, h2, h3⟩

/-- Two linked chains of accepted records of the same length that END in the same Alh agree on
everything the Alhs commit to, or exhibit a collision. -/
theorem linked_binds_thm (hs : HsD D) (lim lim' : Limits) (rs rs' : List (Record D))
    (hacc : ∀ r ∈ rs, ∃ s, parseTx hs lim s = .ok r)
    (hacc' : ∀ r ∈ rs', ∃ s, parseTx hs lim' s = .ok r)
    (hl : Linked rs) (hl' : Linked rs') (hlen : rs'.length = rs.length)
    (hlast : (rs'.getLast?).map (·.storedAlh) = (rs.getLast?).map (·.storedAlh)) :
    rs'.map covered = rs.map covered ∨ HColl hs.toHs := by
  induction rs generalizing rs' with
  | nil =>
    cases rs' with
    | nil => exact Or.inl rfl
    | cons a l => simp at hlen
  | cons r rest ih =>
    cases rs' with
    | nil => simp at hlen
    | cons r' rest' =>
      have hlen' : rest'.length = rest.length := by simpa using hlen
      obtain ⟨s, hp⟩ := hacc r List.mem_cons_self
      obtain ⟨s', hp'⟩ := hacc' r' List.mem_cons_self
      cases rest with
      | nil =>
        cases rest' with
        | cons a l => simp at hlen'
        | nil =>
          have ha : r'.storedAlh = r.storedAlh := by simpa using hlast
          rcases alh_binds_covered_thm hs lim lim' s s' r r' hp hp' ha with hc | hc
          · left; simp [hc]
          · exact Or.inr hc
      | cons b tl =>
        cases rest' with
        | nil => simp at hlen'
        | cons b' tl' =>
          have hlast' : ((b' :: tl').getLast?).map (·.storedAlh) = ((b :: tl).getLast?).map (·.storedAlh) := by
            simpa only [List.getLast?_cons_cons] using hlast
          have ihr := ih (b' :: tl')
            (fun x hx => hacc x (List.mem_cons_of_mem _ hx))
            (fun x hx => hacc' x (List.mem_cons_of_mem _ hx))
            hl.2 hl'.2 hlen' hlast'
          rcases ihr with hc | hc
          · simp only [List.map_cons, List.cons.injEq] at hc
            have hprev : b'.hdr.prevAlh = b.hdr.prevAlh := congrArg Covered.prevAlh hc.1
            have ha : r'.storedAlh = r.storedAlh := by
              rw [← hl.1, ← hl'.1, hprev]
            rcases alh_binds_covered_thm hs lim lim' s s' r r' hp hp' ha with hc2 | hc2
            · left
              simp only [List.map_cons, hc2, hc.1, hc.2]
            · exact Or.inr hc2
          · exact Or.inr hc

end ImmuModel.Tx.Rec
