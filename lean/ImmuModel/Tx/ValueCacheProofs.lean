/-
C09 — proofs about value reads through the value-log cache (`Tx/ValueCache.lean`).
-/
import ImmuModel.Tx.ValueCache

namespace ImmuModel.Tx.ValueCacheProofsAux
open ImmuModel ImmuModel.Tx ImmuModel.Tx.Rec

variable {D : Type} [DecidableEq D]

theorem copyInto_length (b bval : Bytes) : (copyInto b bval).length = b.length := by
  simp [copyInto]; omega

theorem copyInto_same_length (b bval : Bytes) (h : bval.length = b.length) : copyInto b bval = bval := by
  simp [copyInto, ← h]

theorem passes_checked (hs : Hs D) (b : Bytes) (n : Nat) (hVal : D)
    (h : passes hs false b n hVal = true) : b.length = n ∧ hs.H b = hVal := by
  simp [passes] at h
  obtain ⟨h1, h2⟩ := h
  subst h1
  simpa using h2

theorem diskRead_length (cfg : VCfg) (vlogs : List Bytes) (txLog : Bytes) (vOff n : Nat) (v : Bytes)
    (h : diskRead cfg vlogs txLog vOff n = .ok v) : v.length = n := by
  unfold diskRead at h
  split at h
  · cases h
  · split at h
    · cases h
    · split at h
      · rename_i hle
        cases h
        simp
        omega
      · cases h

end ImmuModel.Tx.ValueCacheProofsAux

namespace ImmuModel.Tx.Rec
open ImmuModel ImmuModel.Tx.ValueCacheProofsAux

variable {D : Type} [DecidableEq D]

/-- A checked `readValueAt` that succeeds returns bytes with the requested digest and the
requested length — whatever the cache holds. -/
theorem readValueAtC_checked_thm (hs : Hs D) (cfg : VCfg) (vlogs : List Bytes) (txLog : Bytes)
    (cache c' : Option VCache) (b v : Bytes) (vOff : Nat) (hVal : D)
    (h : readValueAtC hs cfg vlogs txLog cache b vOff hVal false = (c', .ok v)) :
    hs.H v = hVal ∧ v.length = b.length := by
  unfold readValueAtC at h
  split at h
  · cases h
  split at h
  · rename_i hb0
    split at h
    · rename_i hp
      have := passes_checked hs b 0 hVal hp
      cases h
      exact ⟨this.2, rfl⟩
    · cases h
  split at h
  · rename_i bval _
    split at h
    · rename_i hp
      have hp' := passes_checked hs _ _ hVal hp
      cases h
      exact ⟨hp'.2, copyInto_length b bval⟩
    · cases h
  · split at h
    · cases h
    · rename_i v' hd
      split at h
      · rename_i hp
        have hp' := passes_checked hs _ _ hVal hp
        cases h
        exact ⟨hp'.2, hp'.1⟩
      · cases h

theorem readValueC_checked_thm (hs : Hs D) (cfg : VCfg) (vlogs : List Bytes) (txLog : Bytes)
    (cache c' : Option VCache) (e : Entry D) (v : Bytes) (hne : e.vLen ≠ 0)
    (h : readValueC hs cfg vlogs txLog cache e = (c', .ok v)) :
    hs.H v = e.hVal ∧ v.length = e.vLen := by
  unfold readValueC at h
  simp only [hne, if_false] at h
  split at h
  · cases h
  · have := readValueAtC_checked_thm hs cfg vlogs txLog cache c' _ v e.vOff e.hVal h
    simpa using this

theorem exportReadC_checked_thm (hs : Hs D) (cfg : VCfg) (vlogs : List Bytes) (txLog : Bytes)
    (cache c' : Option VCache) (buf : Bytes) (e : Entry D) (v : Bytes)
    (h : exportReadC hs cfg vlogs txLog cache buf e false = (c', .ok v)) :
    hs.H v = e.hVal ∧ v.length = buf.length := by
  unfold exportReadC at h
  split at h
  · cases h
  · exact readValueAtC_checked_thm hs cfg vlogs txLog cache c' _ v e.vOff e.hVal h

/-- In a sequence of value accesses on one store instance — lenient exports, checked exports,
`ReadValue`s, in any order, starting from any cache content — every CHECKED access that succeeds
returns bytes with the digest of its entry and the expected length. -/
theorem runReads_checked_thm (hs : Hs D) (cfg : VCfg) (vlogs : List Bytes) (txLog : Bytes)
    (ops : List (VRead D)) : ∀ (cache : Option VCache) (i : Nat) (v : Bytes),
    (runReads hs cfg vlogs txLog cache ops)[i]? = some (.ok v) →
    (∀ e, ops[i]? = some (.readValue e) → e.vLen ≠ 0 → hs.H v = e.hVal ∧ v.length = e.vLen) ∧
    (∀ e buf, ops[i]? = some (.exportRead e buf false) → hs.H v = e.hVal ∧ v.length = buf.length) := by
  induction ops with
  | nil => intro cache i v h; simp [runReads] at h
  | cons op ops ih =>
    intro cache i v h
    cases i with
    | zero =>
      simp only [runReads, List.getElem?_cons_zero, Option.some.injEq] at h
      constructor
      · intro e he hne
        simp only [List.getElem?_cons_zero, Option.some.injEq] at he
        subst he
        exact readValueC_checked_thm hs cfg vlogs txLog cache _ e v hne (Prod.ext rfl h)
      · intro e buf he
        simp only [List.getElem?_cons_zero, Option.some.injEq] at he
        subst he
        exact exportReadC_checked_thm hs cfg vlogs txLog cache _ buf e v (Prod.ext rfl h)
    | succ j =>
      simp only [runReads, List.getElem?_cons_succ] at h
      have := ih _ j v h
      simpa only [List.getElem?_cons_succ] using this

/-- Cache off: `readValueC` is the `readValue` of `Tx/Record.lean`. -/
theorem readValueC_cache_off_thm (hs : Hs D) (cfg : VCfg) (vlogs : List Bytes) (txLog : Bytes) (e : Entry D) :
    readValueC hs cfg vlogs txLog none e = (none, readValue hs cfg vlogs txLog e) := by
  unfold readValueC readValue
  by_cases h0 : e.vLen = 0
  · simp [h0]
  simp only [h0, if_false]
  by_cases hgt : e.vLen > cfg.maxValueLen
  · simp [hgt]
  simp only [hgt, if_false]
  have hpos : 0 < e.vLen := Nat.pos_of_ne_zero h0
  unfold readValueAtC diskRead
  simp only [List.length_replicate, Option.bind_none, Option.map_none, h0, if_false]
  by_cases hg : (!cfg.embedded) = true ∧ e.vOff / 2 ^ 56 % 256 = 0
  · have hg' : (!cfg.embedded) = true ∧ e.vOff / 2 ^ 56 % 256 = 0 ∧ e.vLen > 0 := ⟨hg.1, hg.2, hpos⟩
    rw [if_pos hg', if_pos hg]
  · have hg' : ¬ ((!cfg.embedded) = true ∧ e.vOff / 2 ^ 56 % 256 = 0 ∧ e.vLen > 0) := by
      intro hc; exact hg ⟨hc.1, hc.2.1⟩
    rw [if_neg hg', if_neg hg]
    cases hf : fetchVLog cfg vlogs txLog (e.vOff / 2 ^ 56 % 256) with
    | error err => rfl
    | ok log =>
      simp only []
      by_cases h63 : e.vOff / 2 ^ 63 % 2 = 1
      · rw [if_pos h63, if_pos h63]
      · rw [if_neg h63, if_neg h63]
        by_cases hle : e.vOff % 2 ^ 55 + e.vLen ≤ log.length
        · rw [if_pos hle, if_pos hle]
          have hlen : (List.take e.vLen (List.drop (e.vOff % 2 ^ 55) log)).length = e.vLen := by
            simp; omega
          by_cases hh : hs.H (List.take e.vLen (List.drop (e.vOff % 2 ^ 55) log)) = e.hVal
          · rw [if_pos hh]
            have : passes hs false (List.take e.vLen (List.drop (e.vOff % 2 ^ 55) log)) e.vLen e.hVal = true := by
              simp only [passes, hlen, List.take_take, Nat.min_self, hh, decide_true, beq_self_eq_true, Bool.and_self, Bool.or_true]
            simp only [this, if_true]
          · rw [if_neg hh]
            have : ¬ passes hs false (List.take e.vLen (List.drop (e.vOff % 2 ^ 55) log)) e.vLen e.hVal = true := by
              simp only [passes, hlen, List.take_take, Nat.min_self, hh, decide_false, Bool.and_false, Bool.or_false, Bool.false_eq_true, not_false_eq_true]
            simp [this]
        · rw [if_neg hle, if_neg hle]

/-- A read that misses the cache, or runs without one, leaves a coherent cache coherent. -/
theorem coherent_preserved_thm (hs : Hs D) (cfg : VCfg) (vlogs : List Bytes) (txLog : Bytes)
    (c c' : VCache) (b : Bytes) (vOff : Nat) (hVal : D) (skip : Bool)
    (hc : c.Coherent cfg vlogs txLog)
    (h : (readValueAtC hs cfg vlogs txLog (some c) b vOff hVal skip).1 = some c') :
    c'.Coherent cfg vlogs txLog := by
  unfold readValueAtC at h
  split at h
  · cases h; exact hc
  split at h
  · cases h; exact hc
  split at h
  · cases h; exact hc
  · split at h
    · cases h; exact hc
    · rename_i v hd
      simp only [Option.map_some, Option.some.injEq] at h
      subst h
      intro off bs hm
      simp only [VCache.put, List.mem_cons, Prod.mk.injEq] at hm
      rcases hm with ⟨rfl, rfl⟩ | hm
      · rw [diskRead_length cfg vlogs txLog off b.length bs hd]; exact hd
      · exact hc off bs hm

theorem lookup_mem {α : Type} (c : List (Nat × α)) (k : Nat) (v : α) (h : List.lookup k c = some v) :
    (k, v) ∈ c := by
  induction c with
  | nil => simp at h
  | cons p c ih =>
    obtain ⟨k', v'⟩ := p
    simp only [List.lookup_cons] at h
    by_cases hk : k = k'
    · subst hk
      simp at h
      subst h
      simp
    · have : (k == k') = false := by simpa using hk
      simp only [this] at h
      exact List.mem_cons_of_mem _ (ih h)

/-- **The cache is transparent** on unchanged logs, for checked and lenient reads alike, unless
the offset is cached with a length different from the one requested (see the example in
`Props/C09.lean`: then a valid value is answered with `ErrCorruptedData`). -/
theorem cached_read_transparent_thm (hs : Hs D) (cfg : VCfg) (vlogs : List Bytes) (txLog : Bytes)
    (c : VCache) (b : Bytes) (vOff : Nat) (hVal : D) (skip : Bool)
    (hc : c.Coherent cfg vlogs txLog)
    (hlen : ∀ bs, c.get vOff = some bs → bs.length = b.length) :
    (readValueAtC hs cfg vlogs txLog (some c) b vOff hVal skip).2 =
    (readValueAtC hs cfg vlogs txLog none b vOff hVal skip).2 := by
  unfold readValueAtC
  split
  · rfl
  split
  · rfl
  cases hg : c.get vOff with
  | none => simp only [Option.bind_some, hg, Option.bind_none]; split <;> rfl
  | some bval =>
    have hl := hlen bval hg
    have hm := lookup_mem c vOff bval hg
    have hd := hc vOff bval hm
    rw [hl] at hd
    simp only [Option.bind_some, hg, Option.bind_none, hd, copyInto_same_length b bval hl, hl]

/-! ### eviction by `TruncateUptoTx` -/

theorem lookup_filter_none {α : Type} (c : List (Nat × α)) (k : Nat) (f : Nat × α → Bool)
    (h : ∀ v, f (k, v) = false) : List.lookup k (c.filter f) = none := by
  induction c with
  | nil => rfl
  | cons p c ih =>
    obtain ⟨k', v'⟩ := p
    by_cases hf : f (k', v') = true
    · rw [List.filter_cons_of_pos hf, List.lookup_cons]
      have hk : (k == k') = false := by
        cases hkk : k == k' with
        | false => rfl
        | true =>
          have : k = k' := by simpa using hkk
          subst this
          rw [h v'] at hf
          cases hf
      rw [hk]
      exact ih
    · rw [List.filter_cons_of_neg hf]
      exact ih

theorem lookup_filter_keep {α : Type} (c : List (Nat × α)) (k : Nat) (f : Nat × α → Bool)
    (h : ∀ v, f (k, v) = true) : List.lookup k (c.filter f) = List.lookup k c := by
  induction c with
  | nil => rfl
  | cons p c ih =>
    obtain ⟨k', v'⟩ := p
    by_cases hf : f (k', v') = true
    · rw [List.filter_cons_of_pos hf, List.lookup_cons, List.lookup_cons, ih]
    · rw [List.filter_cons_of_neg hf, List.lookup_cons]
      have hk : (k == k') = false := by
        cases hkk : k == k' with
        | false => rfl
        | true =>
          have : k = k' := by simpa using hkk
          subst this
          exact absurd (h v') hf
      rw [hk]
      exact ih

/-- After the eviction no value of that log stored before the discard offset is in the cache. -/
theorem evictUpto_get_below_thm (c : VCache) (vlog upto k : Nat) (h1 : k / 2 ^ 56 % 256 = vlog)
    (h2 : k % 2 ^ 55 < upto) : (c.evictUpto vlog upto).get k = none := by
  unfold VCache.evictUpto VCache.get
  apply lookup_filter_none
  intro v
  simp [h1, h2]

/-- Every other cached value — another log, or at/after the discard offset — stays as it was. -/
theorem evictUpto_get_other_thm (c : VCache) (vlog upto k : Nat)
    (h : k / 2 ^ 56 % 256 ≠ vlog ∨ upto ≤ k % 2 ^ 55) : (c.evictUpto vlog upto).get k = c.get k := by
  unfold VCache.evictUpto VCache.get
  apply lookup_filter_keep
  intro v
  rcases h with h | h
  · simp [h]
  · simp; exact Or.inr (by simpa using h)

/-- The eviction only removes entries: a coherent cache stays coherent. -/
theorem evictUpto_coherent_thm (cfg : VCfg) (vlogs : List Bytes) (txLog : Bytes) (c : VCache) (vlog upto : Nat)
    (hc : c.Coherent cfg vlogs txLog) : (c.evictUpto vlog upto).Coherent cfg vlogs txLog := by
  intro off bs hm
  exact hc off bs (List.mem_filter.mp hm).1

/-- A read below the discard point after the eviction takes the disk path: same answer as without a
cache. -/
theorem evicted_read_from_disk_thm (hs : Hs D) (cfg : VCfg) (vlogs : List Bytes) (txLog : Bytes)
    (c : VCache) (vlog upto : Nat) (b : Bytes) (vOff : Nat) (hVal : D) (skip : Bool)
    (h1 : vOff / 2 ^ 56 % 256 = vlog) (h2 : vOff % 2 ^ 55 < upto) :
    (readValueAtC hs cfg vlogs txLog (some (c.evictUpto vlog upto)) b vOff hVal skip).2 =
    (readValueAtC hs cfg vlogs txLog none b vOff hVal skip).2 := by
  have hg := evictUpto_get_below_thm c vlog upto vOff h1 h2
  unfold readValueAtC
  split
  · rfl
  split
  · rfl
  simp only [Option.bind_some, hg, Option.bind_none]
  split <;> rfl


end ImmuModel.Tx.Rec
