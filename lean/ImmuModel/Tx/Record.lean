/-
C09 — the on-disk transaction record (embedded/store).

Written by `ImmuStore.performPrecommit` into the tx log, parsed back by `txDataReader`
(`readHeader`, `readEntry` × NEntries, `buildAndValidateHtree`) on every `ReadTx`,
`ReadTxHeader`, `ReadTxEntry`, `ExportTx`, `TxReader.Read`, indexer read and at `Open`
(last committed tx + pre-committed tail).

Layout (all integers big endian; `Eh` is NOT stored, it is recomputed from the entries):

  ID u64 | Ts u64 | BlTxID u64 | BlRoot 32 | PrevAlh 32 | Version u16
  v0:  NEntries u16
  v1:  txmdLen u16 | txmd | NEntries u32
  NEntries × ( kvmdLen u16 | kvmd | kLen u16 | key | vLen u32 | vOff u64 | hVal 32 )
  Alh 32

The input of `parseTx` is the byte stream of the tx log starting at the record offset and
running to the END OF THE LOG: `appendable.NewReaderFrom(txLog, txOff, txSize)` uses
`txSize` only as its buffer size, the reader is not bounded by the record, so a corrupted
count or length makes the real parser run into the bytes of the following records.

Go panics are explicit (`Err.panic`); nothing is totalised.  Core Lean only.
-/
import ImmuModel.Tx.Header
import ImmuModel.Tx.Entry
import ImmuModel.Merkle.HTree

namespace ImmuModel.Tx.Rec
open ImmuModel.Merkle

/-- Error classes of the read path (what the harness maps Go errors to with `errors.Is`).
`eof` and `alhMismatch` both surface as `ErrCorruptedTxData` ("unexpected EOF while reading
tx" / "ALH mismatch"). -/
inductive Err
  | eof              -- io.EOF from the reader (also: ID = 0, "file may be preallocated")
  | corruptedData    -- ErrCorruptedData (metadata parsers, value length/digest mismatch)
  | unknownVersion   -- ErrCorruptedTxDataUnknownHeaderVersion
  | maxEntries       -- ErrCorruptedTxDataMaxTxEntriesExceeded
  | maxKeyLen        -- ErrCorruptedTxDataMaxKeyLenExceeded
  | mdUnsupported    -- ErrMetadataUnsupported (kv metadata in a version-0 tx)
  | alhMismatch      -- ErrCorruptedTxData: ALH mismatch
  | unexpected       -- ErrUnexpectedError (fetchVLog id checks)
  | panic            -- the Go code panics
deriving DecidableEq, Repr

/-- `Hs` plus the decoder of the fixed-width digest representation (Go: `copy(d[:], bs)`). -/
structure HsD (D : Type) extends Hs D where
  dec : Bytes → D
  dec_enc : ∀ d, dec (enc d) = d

variable {D : Type}

/-! ## appendable.Reader over the remaining stream -/

/-- `Reader.Read(bs)` with `len(bs) = n`: all `n` bytes or `io.EOF`. -/
def readN (n : Nat) (s : Bytes) : Except Err (Bytes × Bytes) :=
  if s.length < n then .error .eof else .ok (s.take n, s.drop n)

/-- `ReadUint16/32/64`. -/
def readU (w : Nat) (s : Bytes) : Except Err (Nat × Bytes) :=
  match readN w s with
  | .error e => .error e
  | .ok (b, s') => .ok (beVal b, s')

/-- `Read(d[:])` for a `[sha256.Size]byte`. -/
def readD (hs : HsD D) (s : Bytes) : Except Err (D × Bytes) :=
  match readN 32 s with
  | .error e => .error e
  | .ok (b, s') => .ok (hs.dec b, s')

/-! ## KVMetadata (kv_metadata.go) -/

structure KVMd where
  deleted : Bool := false
  expiresAt : Option Nat := none     -- raw uint64 of the unix seconds
  nonIndexable : Bool := false
deriving DecidableEq, Repr

/-- `KVMetadata.Bytes()`: attributes in the fixed order deleted, expiresAt, nonIndexable. -/
def KVMd.bytes (m : KVMd) : Bytes :=
  (if m.deleted then [UInt8.ofNat Gen.storeDeletedAttrCode] else []) ++
  (match m.expiresAt with
   | some t => UInt8.ofNat Gen.storeExpiresAtAttrCode :: beN Gen.storeTsSize t
   | none => []) ++
  (if m.nonIndexable then [UInt8.ofNat Gen.storeNonIndexableAttrCode] else [])

/-- The `for` loop of `unsafeReadFrom`: attributes in ANY order, repeats overwrite. -/
def kvmdLoop : Bytes → KVMd → Except Err KVMd
  | [], m => .ok m
  | c :: rest, m =>
    if c.toNat = Gen.storeDeletedAttrCode then kvmdLoop rest { m with deleted := true }
    else if c.toNat = Gen.storeExpiresAtAttrCode then
      if rest.length < Gen.storeTsSize then .error .corruptedData
      else kvmdLoop (rest.drop Gen.storeTsSize) { m with expiresAt := some (beVal (rest.take Gen.storeTsSize)) }
    else if c.toNat = Gen.storeNonIndexableAttrCode then kvmdLoop rest { m with nonIndexable := true }
    else .error .corruptedData
termination_by b => b.length
decreasing_by all_goals simp_wf <;> omega

/-- `KVMetadata.unsafeReadFrom`. -/
def parseKVMd (b : Bytes) : Except Err KVMd :=
  if b.length > Gen.storeMaxKVMetadataLen then .error .corruptedData else kvmdLoop b {}

/-! ## TxMetadata (tx_metadata.go) -/

structure TxMd where
  truncated : Option Nat := none
  extra : Option Bytes := none
deriving DecidableEq, Repr

/-- `TxMetadata.Bytes()`. -/
def TxMd.bytes (m : TxMd) : Bytes :=
  (match m.truncated with
   | some t => UInt8.ofNat Gen.storeTruncatedUptoTxAttrCode :: beN Gen.storeTxIDSize t
   | none => []) ++
  (match m.extra with
   | some x => UInt8.ofNat Gen.storeExtraAttrCode :: (beN Gen.storeSszSize x.length ++ x)
   | none => [])

/-- Length of the `extra` attribute read off CANONICAL metadata bytes (`TxMd.bytes`: an optional
truncatedUptoTx attribute of 1+8 bytes, then an optional extra attribute `code ‖ be16 len ‖ bytes`).
`extraAttribute.serialize` copies into a `[2+256]byte` array and returns `b[:2+len]`: for
`len > maxExtraLen` Go panics (slice bounds out of range).  `ReadFrom` rejects such a length
(`extraAttribute.deserialize`: `n > maxExtraLen`), so the panic is NOT reachable from stored
bytes any more (`parseTx_noPanic`); it would fire when `TxHeader.Alh()` → `innerHash` →
`Metadata.Bytes()` is evaluated. -/
def txmdExtraLen (md : Bytes) : Nat :=
  let rest := match md with
    | c :: r => if c.toNat = Gen.storeTruncatedUptoTxAttrCode then r.drop Gen.storeTxIDSize else md
    | [] => []
  match rest with
  | c :: r => if c.toNat = Gen.storeExtraAttrCode then beVal (r.take Gen.storeSszSize) else 0
  | [] => 0

/-- The `for` loop of `TxMetadata.ReadFrom`.  `extraAttribute.deserialize` rejects a declared
length above `maxExtraLen` or beyond the bytes present
(`if n > maxExtraLen || len(b) < sszSize+n { return 0, ErrCorruptedData }`), then allocates
and copies exactly the declared length. -/
def txmdLoop : Bytes → TxMd → Except Err TxMd
  | [], m => .ok m
  | c :: rest, m =>
    if c.toNat = Gen.storeTruncatedUptoTxAttrCode then
      if rest.length < Gen.storeTxIDSize then .error .corruptedData
      else txmdLoop (rest.drop Gen.storeTxIDSize) { m with truncated := some (beVal (rest.take Gen.storeTxIDSize)) }
    else if c.toNat = Gen.storeExtraAttrCode then
      if rest.length < Gen.storeSszSize then .error .corruptedData
      else
        let n := beVal (rest.take Gen.storeSszSize)
        let body := rest.drop Gen.storeSszSize
        if n > Gen.storeMaxExtraLen ∨ body.length < n then .error .corruptedData
        else txmdLoop (body.drop n) { m with extra := some (body.take n) }
    else .error .corruptedData
termination_by b => b.length
decreasing_by all_goals simp_wf <;> omega

/-- `TxMetadata.ReadFrom`. -/
def parseTxMd (b : Bytes) : Except Err TxMd :=
  if b.length > Gen.storeMaxTxMetadataLen then .error .corruptedData else txmdLoop b {}

/-! ## The record -/

/-- `store.TxEntry` as stored.  `md` is the canonical `KVMetadata.Bytes()` of the PARSED
metadata (`[]` = nil): the entry digest is computed from the re-serialised metadata, not
from the raw bytes. -/
structure Entry (D : Type) where
  md : Bytes
  key : Bytes
  vLen : Nat
  vOff : Nat      -- raw uint64 (Go casts to int64): vlog id in the top byte
  hVal : D

structure Record (D : Type) where
  hdr : TxHeader D          -- `hdr.md` = canonical `TxMetadata.Bytes()` of the parsed metadata
  entries : List (Entry D)
  storedAlh : D

/-- Limits of the reading store (`Tx` holder: `len(tx.entries)`, `len(entry.k)`). -/
structure Limits where
  maxEntries : Nat
  maxKeyLen : Nat

/-- Go's zero value of `[32]byte` (the header's `Eh` before `buildAndValidateHtree`). -/
def zeroD (hs : HsD D) : D := hs.dec (List.replicate 32 0)

/-- `TxEntryDigest_v1_1` (header version 0) / `TxEntryDigest_v1_2` (version 1). -/
def entryDigest (hs : HsD D) (version : Nat) (e : Entry D) : D :=
  if version = 0 then entryDigestV0 hs.toHs e.key e.hVal
  else entryDigestV1 hs.toHs e.md e.key e.hVal

/-- `Eh` as `buildAndValidateHtree` recomputes it: `htree.BuildWith(digests).Root()`. -/
def ehOf (hs : HsD D) (version : Nat) (es : List (Entry D)) : D :=
  (HTree.build hs.toHs.mhH hs.enc (es.map (entryDigest hs version))).root

/-- `txDataReader.readHeader(maxEntries)`. -/
def readHeader (hs : HsD D) (maxEntries : Nat) (s : Bytes) : Except Err (TxHeader D × Bytes) :=
  match readU Gen.storeTxIDSize s with
  | .error e => .error e
  | .ok (id, s) =>
  if id = 0 then .error .eof else
  match readU Gen.storeTsSize s with
  | .error e => .error e
  | .ok (ts, s) =>
  match readU Gen.storeTxIDSize s with
  | .error e => .error e
  | .ok (bl, s) =>
  match readD hs s with
  | .error e => .error e
  | .ok (blRoot, s) =>
  match readD hs s with
  | .error e => .error e
  | .ok (prev, s) =>
  match readU Gen.storeSszSize s with
  | .error e => .error e
  | .ok (ver, s) =>
  if ver = 0 then
    match readU Gen.storeSszSize s with
    | .error e => .error e
    | .ok (ne, s) =>
      if ne > maxEntries then .error .maxEntries
      else .ok (⟨id, ts, bl, blRoot, prev, 0, [], ne, zeroD hs⟩, s)
  else if ver = 1 then
    match readU Gen.storeSszSize s with
    | .error e => .error e
    | .ok (mdLen, s) =>
    if mdLen > Gen.storeMaxTxMetadataLen then .error .corruptedData else
    match (if mdLen > 0 then
             match readN mdLen s with
             | .error e => .error e
             | .ok (b, s) =>
               match parseTxMd b with
               | .error e => .error e
               | .ok m => .ok (m.bytes, s)
           else (.ok ([], s) : Except Err (Bytes × Bytes))) with
    | .error e => .error e
    | .ok (md, s) =>
    match readU Gen.storeLszSize s with
    | .error e => .error e
    | .ok (ne, s) =>
      if ne > maxEntries then .error .maxEntries
      else .ok (⟨id, ts, bl, blRoot, prev, 1, md, ne, zeroD hs⟩, s)
  else .error .unknownVersion

/-- `txDataReader.readEntry` (integrity check on: the digest function is evaluated, which
for a version-0 header rejects any kv metadata). -/
def readEntry (hs : HsD D) (version maxKeyLen : Nat) (s : Bytes) : Except Err (Entry D × Bytes) :=
  match readU Gen.storeSszSize s with
  | .error e => .error e
  | .ok (mdLen, s) =>
  match (if mdLen > 0 then
           match readN mdLen s with
           | .error e => .error e
           | .ok (b, s) =>
             match parseKVMd b with
             | .error e => .error e
             | .ok m => .ok (m.bytes, s)
         else (.ok ([], s) : Except Err (Bytes × Bytes))) with
  | .error e => .error e
  | .ok (md, s) =>
  match readU Gen.storeSszSize s with
  | .error e => .error e
  | .ok (kLen, s) =>
  if kLen > maxKeyLen then .error .maxKeyLen else
  match readN kLen s with
  | .error e => .error e
  | .ok (key, s) =>
  match readU Gen.storeLszSize s with
  | .error e => .error e
  | .ok (vLen, s) =>
  match readU Gen.storeOffsetSize s with
  | .error e => .error e
  | .ok (vOff, s) =>
  match readD hs s with
  | .error e => .error e
  | .ok (hVal, s) =>
  if version = 0 ∧ md ≠ [] then .error .mdUnsupported
  else .ok (⟨md, key, vLen, vOff, hVal⟩, s)

/-- `for i := 0; i < header.NEntries; i++ { readEntry }`. -/
def readEntries (hs : HsD D) (version maxKeyLen : Nat) : Nat → Bytes → Except Err (List (Entry D) × Bytes)
  | 0, s => .ok ([], s)
  | n+1, s =>
    match readEntry hs version maxKeyLen s with
    | .error e => .error e
    | .ok (e, s) =>
      match readEntries hs version maxKeyLen n s with
      | .error e => .error e
      | .ok (es, s) => .ok (e :: es, s)

/-- `Tx.readFrom(r, skipIntegrityCheck = false)` = `readHeader`, the entry loop,
`buildAndValidateHtree` (read the stored Alh, recompute `Eh`, compare `Alh()`).
`htree.BuildWith` cannot fail here (`len(digests) = NEntries ≤ maxEntries = maxWidth`). -/
def parseTx [DecidableEq D] (hs : HsD D) (lim : Limits) (s : Bytes) : Except Err (Record D) :=
  match readHeader hs lim.maxEntries s with
  | .error e => .error e
  | .ok (h, s) =>
  match readEntries hs h.version lim.maxKeyLen h.nentries s with
  | .error e => .error e
  | .ok (es, s) =>
  match readD hs s with
  | .error e => .error e
  | .ok (stored, _) =>
    let h' : TxHeader D := { h with eh := ehOf hs h.version es }
    -- `t.h.Alh()` serialises the tx metadata: `extraAttribute.serialize` panics beyond maxExtraLen
    -- (unreachable: `parseTxMd` accepts at most maxExtraLen bytes, see `parseTx_noPanic`)
    if txmdExtraLen h.md > Gen.storeMaxExtraLen then .error .panic else
    match alh hs.toHs h' with
    | none => .error .panic      -- innerHash panics on an unknown version (unreachable: readHeader rejects it)
    | some a => if a = stored then .ok ⟨h', es, stored⟩ else .error .alhMismatch

/-! ## Serialisation (performPrecommit) -/

def serializeEntry (hs : HsD D) (e : Entry D) : Bytes :=
  beN Gen.storeSszSize e.md.length ++ e.md ++ beN Gen.storeSszSize e.key.length ++ e.key ++
  beN Gen.storeLszSize e.vLen ++ beN Gen.storeOffsetSize e.vOff ++ hs.enc e.hVal

def serializeHeader (hs : HsD D) (h : TxHeader D) : Option Bytes :=
  let pre := beN Gen.storeTxIDSize h.id ++ beN Gen.storeTsSize h.ts ++ beN Gen.storeTxIDSize h.blTxID ++
    hs.enc h.blRoot ++ hs.enc h.prevAlh ++ beN Gen.storeSszSize h.version
  if h.version = 0 then some (pre ++ beN Gen.storeSszSize h.nentries)
  else if h.version = 1 then some (pre ++ beN Gen.storeSszSize h.md.length ++ h.md ++ beN Gen.storeLszSize h.nentries)
  else none   -- Go: panic("missing tx serialization method for version")

/-- The bytes `performPrecommit` appends to the tx log for one transaction. -/
def serializeTx (hs : HsD D) (r : Record D) : Option Bytes :=
  match serializeHeader hs r.hdr with
  | none => none
  | some hb => some (hb ++ (r.entries.map (serializeEntry hs)).flatten ++ hs.enc r.storedAlh)

/-! ## Value reads (ReadValue / readValueAt / fetchVLog) -/

/-- Store configuration relevant to value reads. -/
structure VCfg where
  embedded : Bool       -- values live in the tx log
  maxIO : Nat           -- MaxIOConcurrency = number of value logs
  maxValueLen : Nat     -- MaxValueLen persisted at store creation (`s.maxValueLen`)

/-- `fetchVLog(vLogID)`.  `vlogs` = `s.vLogs` (`MaxIOConcurrency` value logs).  Every path
validates the id: embedded values (`id > 0`), the single-vlog fast path (`id != 1`) and the
general path (`vLogID < 1 || int(vLogID) > len(s.vLogs)`) return `ErrUnexpectedError`.
The remaining `panic` outcomes (an empty `s.vLogs`) cannot happen for an opened store. -/
def fetchVLog (cfg : VCfg) (vlogs : List Bytes) (txLog : Bytes) (id : Nat) : Except Err Bytes :=
  if cfg.embedded then
    if id > 0 then .error .unexpected else .ok txLog
  else if cfg.maxIO = 1 then
    if id ≠ 1 then .error .unexpected
    else match vlogs[0]? with
      | some l => .ok l
      | none => .error .panic
  else if id < 1 ∨ id > vlogs.length then .error .unexpected
  else match vlogs[id - 1]? with
    | some l => .ok l
    | none => .error .panic

/-- `ReadValue(entry)` on uncompressed logs given as their logical content, value cache off.
`validateValueLen`: a stored length above `MaxValueLen` is rejected (`ErrCorruptedData`)
before the buffer is allocated.
`decodeOffset`: vlog id = top byte, offset = `vOff &^ (0xff << 55)` (bit 63 survives: a
"negative" offset is answered by the appendable with an error). -/
def readValue (hs : Hs D) [DecidableEq D] (cfg : VCfg) (vlogs : List Bytes) (txLog : Bytes)
    (e : Entry D) : Except Err Bytes :=
  if e.vLen = 0 then .ok []         -- returned BEFORE any validation (see the TODO in ReadValue)
  else if e.vLen > cfg.maxValueLen then .error .corruptedData
  else
    let id := e.vOff / 2 ^ 56 % 256
    if !cfg.embedded ∧ id = 0 then .error .eof
    else match fetchVLog cfg vlogs txLog id with
      | .error err => .error err
      | .ok log =>
        if e.vOff / 2 ^ 63 % 2 = 1 then .error .eof
        else
          let off := e.vOff % 2 ^ 55
          if off + e.vLen ≤ log.length then
            let v := (log.drop off).take e.vLen
            if hs.H v = e.hVal then .ok v else .error .corruptedData
          else .error .eof

end ImmuModel.Tx.Rec
