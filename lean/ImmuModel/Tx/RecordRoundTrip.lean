/-
C09 — proofs about `Tx/Record.lean`: round trip parse∘serialize, re-sealing, the tx-metadata panic witness.  Core Lean only (no Mathlib needed so far).
-/
import ImmuModel.Tx.RecordSpec
import ImmuModel.Merkle.Proofs.Roots
import ImmuModel.Merkle.Proofs.InclSound

namespace ImmuModel.Tx.Rec
open ImmuModel.Merkle
variable {D : Type}

/-! ## Reader lemmas, metadata / entry / header round trips (helpers) -/

theorem readN_append (n : Nat) (a rest : Bytes) (h : a.length = n) :
    readN n (a ++ rest) = .ok (a, rest) := by
  subst h
  simp [readN]

theorem readU_append (w n : Nat) (rest : Bytes) (h : n < 256 ^ w) :
    readU w (beN w n ++ rest) = .ok (n, rest) := by
  simp [readU, readN_append w (beN w n) rest (beN_length w n), beVal_beN, Nat.mod_eq_of_lt h]

theorem readD_append (hs : HsD D) (d : D) (rest : Bytes) :
    readD hs (hs.enc d ++ rest) = .ok (d, rest) := by
  simp [readD, readN_append 32 (hs.enc d) rest (hs.enc_len d), hs.dec_enc]

theorem take_beN (w n : Nat) : (beN w n).take w = beN w n :=
  List.take_of_length_le (by simp)
theorem drop_beN (w n : Nat) : (beN w n).drop w = [] :=
  List.drop_of_length_le (by simp)
theorem take_beN_append (w n : Nat) (r : Bytes) : (beN w n ++ r).take w = beN w n := by
  have := List.take_left' (l₂ := r) (beN_length w n); exact this
theorem drop_beN_append (w n : Nat) (r : Bytes) : (beN w n ++ r).drop w = r := by
  have := List.drop_left' (l₂ := r) (beN_length w n); exact this

theorem KVMd.parse_bytes (k : KVMd) (wf : k.WF) : parseKVMd k.bytes = .ok k := by
  obtain ⟨d, e, n⟩ := k
  have hv : ∀ t, e = some t → beVal (beN 8 t) = t := fun t ht => by
    rw [beVal_beN]; exact Nat.mod_eq_of_lt (by have := wf t ht; simpa using this)
  cases d <;> cases n <;> cases e <;>
    simp [parseKVMd, KVMd.bytes, kvmdLoop, Gen.storeMaxKVMetadataLen, Gen.storeDeletedAttrCode,
      Gen.storeExpiresAtAttrCode, Gen.storeNonIndexableAttrCode, Gen.storeTsSize,
      take_beN, drop_beN, hv]

theorem KVMd.bytes_length (k : KVMd) : k.bytes.length ≤ 11 := by
  obtain ⟨d, e, n⟩ := k
  cases d <;> cases n <;> cases e <;> simp [KVMd.bytes, Gen.storeTsSize]

theorem TxMd.parse_bytes (m : TxMd) (wf : m.WF) : parseTxMd m.bytes = .ok m ∧ m.bytes.length ≤ 268 := by
  obtain ⟨t, x⟩ := m
  obtain ⟨wt, wx⟩ := wf
  have hv : ∀ u, t = some u → beVal (beN 8 u) = u := fun u hu => by
    rw [beVal_beN]; exact Nat.mod_eq_of_lt (by have := wt u hu; simpa using this)
  have hx : ∀ y, x = some y → beVal (beN 2 y.length) = y.length ∧ y.length ≤ 256 := fun y hy => by
    have := wx y hy
    simp only [Gen.storeMaxExtraLen] at this
    rw [beVal_beN]; exact ⟨Nat.mod_eq_of_lt (by omega), this⟩
  cases t <;> cases x <;>
    simp [parseTxMd, TxMd.bytes, txmdLoop, Gen.storeMaxTxMetadataLen, Gen.storeTruncatedUptoTxAttrCode,
      Gen.storeExtraAttrCode, Gen.storeTxIDSize, Gen.storeSszSize,
      take_beN, drop_beN, hv]
  all_goals
    obtain ⟨h1, h2⟩ := hx _ rfl
    rw [h1]
    simp [txmdLoop]
    have hM : Gen.storeMaxExtraLen = 256 := rfl
    refine ⟨?_, by omega⟩
    repeat (rw [if_neg (by omega)])


theorem txmdExtraLen_bytes (m : TxMd) (wf : m.WF) : txmdExtraLen m.bytes ≤ Gen.storeMaxExtraLen := by
  obtain ⟨tr, ex⟩ := m
  obtain ⟨_, hex⟩ := wf
  cases tr with
  | none =>
    cases ex with
    | none => simp [TxMd.bytes, txmdExtraLen]
    | some x =>
      have hx := hex x rfl
      have hx2 : x.length < 65536 := by simp [Gen.storeMaxExtraLen] at hx; omega
      have hb : beVal (beN 2 x.length) = x.length := by rw [beVal_beN]; exact Nat.mod_eq_of_lt (by simpa using hx2)
      simp [TxMd.bytes, txmdExtraLen, Gen.storeTruncatedUptoTxAttrCode, Gen.storeExtraAttrCode, Gen.storeSszSize, hb]
      simpa [Gen.storeMaxExtraLen] using hx
  | some t =>
    cases ex with
    | none => simp [TxMd.bytes, txmdExtraLen, Gen.storeTruncatedUptoTxAttrCode, Gen.storeTxIDSize, drop_beN]
    | some x =>
      have hx := hex x rfl
      have hx2 : x.length < 65536 := by simp [Gen.storeMaxExtraLen] at hx; omega
      have hb : beVal (beN 2 x.length) = x.length := by rw [beVal_beN]; exact Nat.mod_eq_of_lt (by simpa using hx2)
      simp [TxMd.bytes, txmdExtraLen, Gen.storeTruncatedUptoTxAttrCode, Gen.storeExtraAttrCode, Gen.storeSszSize,
        Gen.storeTxIDSize, hb]
      simpa [Gen.storeMaxExtraLen] using hx

theorem readEntry_serialize (hs : HsD D) (version : Nat) (lim : Limits) (e : Entry D) (rest : Bytes)
    (wf : Entry.WF version lim e) :
    readEntry hs version lim.maxKeyLen (serializeEntry hs e ++ rest) = .ok (e, rest) := by
  obtain ⟨⟨k, kwf, hk⟩, mdv0, kmax, kfit, vl, vo⟩ := wf
  obtain ⟨md, key, vLen, vOff, hVal⟩ := e
  simp only at hk mdv0 kmax kfit vl vo
  have hmdlen : md.length < 65536 := by rw [hk]; have := k.bytes_length; omega
  have hkl : key.length < 65536 := by simpa using kfit
  have hvl : vLen < 4294967296 := by simpa using vl
  have hvo : vOff < 18446744073709551616 := by simpa using vo
  have hkm : ¬ (key.length > lim.maxKeyLen) := by omega
  have hv0 : ¬ (version = 0 ∧ md ≠ []) := fun ⟨a, b⟩ => b (mdv0 a)
  have hparse := k.parse_bytes kwf
  rw [← hk] at hparse
  simp only [serializeEntry, List.append_assoc, readEntry, Gen.storeSszSize, Gen.storeLszSize,
    Gen.storeOffsetSize]
  rw [readU_append 2 _ _ (by simpa using hmdlen)]
  by_cases hmd : md = []
  · subst hmd
    simp [readU_append, readN_append, readD_append, hkl, hvl, hvo, hkm]
  · have hpos : md.length > 0 := List.length_pos_iff.mpr hmd
    simp [readU_append, readN_append, readD_append, hkl, hvl, hvo, hkm, hv0, hpos, hparse, ← hk]

theorem readEntries_serialize (hs : HsD D) (version : Nat) (lim : Limits) (es : List (Entry D))
    (rest : Bytes) (wf : ∀ e ∈ es, Entry.WF version lim e) :
    readEntries hs version lim.maxKeyLen es.length
      ((es.map (serializeEntry hs)).flatten ++ rest) = .ok (es, rest) := by
  induction es with
  | nil => simp [readEntries]
  | cons e es ih =>
    have h1 := readEntry_serialize hs version lim e
      ((es.map (serializeEntry hs)).flatten ++ rest) (wf e (by simp))
    have h2 := ih (fun x hx => wf x (by simp [hx]))
    simp [readEntries, List.append_assoc, h1, h2]

theorem readHeader_serialize (hs : HsD D) (lim : Limits) (r : Record D) (hb rest : Bytes)
    (wf : Record.WF hs lim r) (hser : serializeHeader hs r.hdr = some hb) :
    readHeader hs lim.maxEntries (hb ++ rest) = .ok ({ r.hdr with eh := zeroD hs }, rest) := by
  obtain ⟨hdr, es, sa⟩ := r
  obtain ⟨id, ts, bl, blRoot, prev, ver, md, ne, eh⟩ := hdr
  obtain ⟨idp, idf, tsf, blf, hver, mdv0, ⟨m, mwf, hm⟩, hne, nemax, nefit0, nefit, -, -, -⟩ := wf
  simp only at idp idf tsf blf hver mdv0 hm hne nemax nefit0 nefit
  have hidf : id < 18446744073709551616 := by simpa using idf
  have htsf : ts < 18446744073709551616 := by simpa using tsf
  have hblf : bl < 18446744073709551616 := by simpa using blf
  have hid0 : id ≠ 0 := by omega
  have hnm : ¬ (ne > lim.maxEntries) := by omega
  have hnf : ne < 4294967296 := by omega
  obtain ⟨hparse, hmlen⟩ := m.parse_bytes mwf
  rw [← hm] at hparse hmlen
  rcases hver with hv | hv
  · subst hv
    have hmd := mdv0 rfl
    have hnf0 : ne < 65536 := by have := nefit0 rfl; omega
    subst hmd
    simp only [serializeHeader, if_true] at hser
    injection hser with hser
    subst hser
    simp [readHeader, List.append_assoc, Gen.storeTxIDSize, Gen.storeTsSize, Gen.storeSszSize,
      readU_append, readD_append, hidf, htsf, hblf, hid0, hnm, hnf0]
  · subst hv
    simp only [serializeHeader] at hser
    simp at hser
    subst hser
    by_cases hmd : md = []
    · subst hmd
      simp [readHeader, List.append_assoc, Gen.storeTxIDSize, Gen.storeTsSize, Gen.storeSszSize,
        Gen.storeLszSize,
        readU_append, readD_append, hidf, htsf, hblf, hid0, hnm, hnf]
    · have hpos : md.length > 0 := List.length_pos_iff.mpr hmd
      have hmf : md.length < 65536 := by omega
      have hmm : ¬ (md.length > 268) := by omega
      simp [readHeader, List.append_assoc, Gen.storeTxIDSize, Gen.storeTsSize, Gen.storeSszSize,
        Gen.storeLszSize, Gen.storeMaxTxMetadataLen,
        readU_append, readD_append, readN_append, hidf, htsf, hblf, hid0, hnm, hnf, hpos, hmf, hmm,
        hparse, ← hm]

/-! ## The four target theorems -/

variable [DecidableEq D]

theorem parse_serialize_thm (hs : HsD D) (lim : Limits) (r : Record D) (bs rest : Bytes)
    (wf : Record.WF hs lim r) (hser : serializeTx hs r = some bs) :
    parseTx hs lim (bs ++ rest) = .ok r := by
  unfold serializeTx at hser
  cases hh : serializeHeader hs r.hdr with
  | none => simp [hh] at hser
  | some hb =>
    simp only [hh, Option.some.injEq] at hser
    subst hser
    have h1 := readHeader_serialize hs lim r hb
      ((r.entries.map (serializeEntry hs)).flatten ++ (hs.enc r.storedAlh ++ rest)) wf hh
    have h2 := readEntries_serialize hs r.hdr.version lim r.entries (hs.enc r.storedAlh ++ rest) wf.entries
    have h3 := wf.alh
    have h4 := wf.eh
    have h5 := wf.ne
    have h6 : ¬ (txmdExtraLen r.hdr.md > Gen.storeMaxExtraLen) := by
      obtain ⟨m, mwf, hm⟩ := wf.md
      rw [hm]
      exact Nat.not_lt.mpr (txmdExtraLen_bytes m mwf)
    obtain ⟨hdr, es, sa⟩ := r
    obtain ⟨id, ts, bl, blRoot, prev, ver, md, ne, eh⟩ := hdr
    simp only at h1 h2 h3 h4 h5 h6
    subst h4 h5
    simp only [parseTx, List.append_assoc, h1, h2, readD_append, h3, h6, if_false]
    simp

theorem serialize_some_thm (hs : HsD D) (lim : Limits) (r : Record D) (wf : Record.WF hs lim r) :
    ∃ bs, serializeTx hs r = some bs := by
  rcases wf.ver with hv | hv <;> simp [serializeTx, serializeHeader, hv]

theorem reseal_wf_thm (hs : HsD D) (lim : Limits) (r r' : Record D) (es : List (Entry D))
    (wf : Record.WF hs lim r) (hes : ∀ e ∈ es, Entry.WF r.hdr.version lim e)
    (hmax : es.length ≤ lim.maxEntries) (hfit0 : r.hdr.version = 0 → es.length < 2 ^ 16)
    (hfit : es.length < 2 ^ 32) (hr : reseal hs r.hdr es = some r') :
    Record.WF hs lim r' := by
  unfold reseal at hr
  simp only [Option.map_eq_some_iff] at hr
  obtain ⟨a, ha, rfl⟩ := hr
  exact
    { id_pos := wf.id_pos, id_fit := wf.id_fit, ts_fit := wf.ts_fit, bl_fit := wf.bl_fit,
      ver := wf.ver, md_v0 := wf.md_v0, md := wf.md, ne := rfl, ne_max := hmax,
      ne_fit0 := hfit0, ne_fit := hfit, entries := hes, eh := rfl, alh := ha }

/-- The former panic witness: 3 metadata bytes `01 00 05` (an `extra` attribute declaring more
bytes than present) are rejected by the tx-metadata parser. -/
theorem txmd_overrun_thm (hs : HsD D) (lim : Limits) (blRoot prevAlh : D) (rest : Bytes) :
    parseTx hs lim
      (beN 8 1 ++ (beN 8 0 ++ (beN 8 0 ++ (hs.enc blRoot ++ (hs.enc prevAlh ++ (beN 2 1 ++
       (beN 2 3 ++ ([1, 0, 5] ++ rest)))))))) = .error .corruptedData := by
  have hp : parseTxMd [1, 0, 5] = .error .corruptedData := by
    simp [parseTxMd, txmdLoop, Gen.storeMaxTxMetadataLen, Gen.storeTruncatedUptoTxAttrCode,
      Gen.storeExtraAttrCode, Gen.storeSszSize, Gen.storeMaxExtraLen, beVal]
  have hr : readN 3 (1 :: 0 :: 5 :: rest) = .ok ([1, 0, 5], rest) := readN_append 3 [1, 0, 5] rest rfl
  simp [parseTx, readHeader, Gen.storeTxIDSize, Gen.storeTsSize, Gen.storeSszSize,
    Gen.storeMaxTxMetadataLen, readU_append, readD_append, hr, hp]

theorem parseTxMd_long_extra (x : Bytes) (hx : x.length = 257) :
    parseTxMd (1 :: 1 :: 1 :: x) = .error .corruptedData := by
  simp [parseTxMd, Gen.storeMaxTxMetadataLen, txmdLoop, Gen.storeTruncatedUptoTxAttrCode, Gen.storeExtraAttrCode,
    Gen.storeSszSize, Gen.storeMaxExtraLen, beVal, hx]

/-- The former panic witness: an `extra` attribute of 257 bytes (> `maxExtraLen`) is rejected by
the tx-metadata parser instead of reaching `extraAttribute.serialize`. -/
theorem txmd_too_long_thm (hs : HsD D) (lim : Limits) (a b c : D) (x rest : Bytes) (hx : x.length = 257) :
    parseTx hs lim
      (beN 8 1 ++ (beN 8 0 ++ (beN 8 0 ++ (hs.enc a ++ (hs.enc b ++ (beN 2 1 ++
       (beN 2 260 ++ ((1 :: 1 :: 1 :: x) ++ (beN 4 0 ++ (hs.enc c ++ rest)))))))))) = .error .corruptedData := by
  have hl : (1 :: 1 :: 1 :: x).length = 260 := by simp [hx]
  have hr : ∀ t, readN 260 (1 :: 1 :: 1 :: (x ++ t)) = .ok (1 :: 1 :: 1 :: x, t) := fun t => by
    have := readN_append 260 (1 :: 1 :: 1 :: x) t hl
    simpa using this
  simp [parseTx, readHeader, hr, Gen.storeTxIDSize, Gen.storeTsSize, Gen.storeSszSize, Gen.storeLszSize,
    Gen.storeMaxTxMetadataLen,
    readU_append, readD_append, parseTxMd_long_extra x hx]

end ImmuModel.Tx.Rec
