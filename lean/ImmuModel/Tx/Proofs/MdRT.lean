/-
C15 helper lemmas: round trips of TxMetadata and KVMetadata.
-/
import ImmuModel.Tx.Metadata
namespace ImmuModel.Tx
open ImmuModel ImmuModel.GoInt

theorem code_te : codeU8 Gen.storeExtraAttrCode ≠ codeU8 Gen.storeTruncatedUptoTxAttrCode := by decide
theorem code_kv1 : codeU8 Gen.storeExpiresAtAttrCode ≠ codeU8 Gen.storeDeletedAttrCode := by decide
theorem code_kv2 : codeU8 Gen.storeNonIndexableAttrCode ≠ codeU8 Gen.storeDeletedAttrCode := by decide
theorem code_kv3 : codeU8 Gen.storeNonIndexableAttrCode ≠ codeU8 Gen.storeExpiresAtAttrCode := by decide

theorem beVal_beN_small {w n : Nat} (h : n < 256 ^ w) : beVal (beN w n) = n := by
  rw [beVal_beN]; exact Nat.mod_eq_of_lt h

theorem take_app {x : Bytes} {k : Nat} (h : x.length = k) (y : Bytes) : (x ++ y).take k = x := by
  subst h; exact List.take_left

theorem drop_app {x : Bytes} {k : Nat} (h : x.length = k) (y : Bytes) : (x ++ y).drop k = y := by
  subst h; exact List.drop_left

@[simp] theorem txmdLoop_nil (fuel : Nat) (md : TxMd) : txmdLoop fuel [] md = .ok md := by
  cases fuel <;> rfl

theorem txmdLoop_trunc {fuel : Nat} (hf : 0 < fuel) {id : Nat} (hid : id < two64) (rest : Bytes)
    (md : TxMd) :
    txmdLoop fuel (codeU8 Gen.storeTruncatedUptoTxAttrCode :: (beN Gen.storeTxIDSize id ++ rest)) md =
      txmdLoop (fuel - 1) rest { md with trunc := some id } := by
  cases fuel with
  | zero => omega
  | succ f =>
    have h8 : Gen.storeTxIDSize = 8 := rfl
    have hl : (beN Gen.storeTxIDSize id).length = Gen.storeTxIDSize := beN_length _ _
    have c : ¬ ((beN Gen.storeTxIDSize id ++ rest).length < Gen.storeTxIDSize) := by
      simp
    simp only [txmdLoop, if_true, c, if_false, take_app hl, drop_app hl, Nat.add_sub_cancel]
    rw [beVal_beN_small]
    rw [h8]; exact hid

theorem txmdLoop_extra {fuel : Nat} (hf : 0 < fuel) {e : Bytes} (he : e.length ≤ Gen.storeMaxExtraLen)
    (rest : Bytes) (md : TxMd) :
    txmdLoop fuel (codeU8 Gen.storeExtraAttrCode :: (beN Gen.storeSszSize e.length ++ e ++ rest)) md =
      txmdLoop (fuel - 1) rest { md with extra := some e } := by
  cases fuel with
  | zero => omega
  | succ f =>
    have hm : Gen.storeMaxExtraLen = 256 := rfl
    have h2 : Gen.storeSszSize = 2 := rfl
    have hl : (beN Gen.storeSszSize e.length).length = Gen.storeSszSize := beN_length _ _
    have c : ¬ ((beN Gen.storeSszSize e.length ++ (e ++ rest)).length < Gen.storeSszSize) := by
      simp
    have hv : beVal (beN Gen.storeSszSize e.length) = e.length := by
      apply beVal_beN_small; rw [h2]; omega
    simp only [txmdLoop, code_te, if_false, if_true, c, List.append_assoc, take_app hl, drop_app hl,
      hv, Nat.add_sub_cancel]
    have c2 : ¬ (e.length > Gen.storeMaxExtraLen ∨ e.length > (e ++ rest).length) := by
      simp only [List.length_append]; omega
    rw [if_neg c2, List.take_left, List.drop_left]

theorem txmdLoop_extra_end {fuel : Nat} (hf : 0 < fuel) {e : Bytes} (he : e.length ≤ Gen.storeMaxExtraLen)
    (md : TxMd) :
    txmdLoop fuel (codeU8 Gen.storeExtraAttrCode :: (beN Gen.storeSszSize e.length ++ e)) md =
      .ok { md with extra := some e } := by
  have := txmdLoop_extra hf he [] md
  simp only [List.append_nil] at this
  rw [this]; simp

theorem txmdLoop_trunc_end {fuel : Nat} (hf : 0 < fuel) {id : Nat} (hid : id < two64) (md : TxMd) :
    txmdLoop fuel (codeU8 Gen.storeTruncatedUptoTxAttrCode :: beN Gen.storeTxIDSize id) md =
      .ok { md with trunc := some id } := by
  have := txmdLoop_trunc hf hid [] md
  simp only [List.append_nil] at this
  rw [this]; simp

theorem txmd_roundtrip_aux (md : TxMd) (h : md.wf = true) :
    ∃ bs, txmdBytes md = .ok bs ∧ bs.length ≤ Gen.storeMaxTxMetadataLen ∧
      (bs.length = 0 ↔ md.isEmpty = true) ∧ txmdReadFrom bs = .ok md := by
  have hm : Gen.storeMaxExtraLen = 256 := rfl
  have hmm : Gen.storeMaxTxMetadataLen = 268 := rfl
  obtain ⟨t, e⟩ := md
  cases t with
  | none =>
    cases e with
    | none => exact ⟨[], rfl, by simp, by simp [TxMd.isEmpty], rfl⟩
    | some e =>
      simp only [TxMd.wf, Bool.true_and, decide_eq_true_eq] at h
      have c : ¬ (e.length > Gen.storeMaxExtraLen) := by omega
      refine ⟨codeU8 Gen.storeExtraAttrCode :: (beN Gen.storeSszSize e.length ++ e), ?_, ?_, ?_, ?_⟩
      · simp [txmdBytes, extraSerialize, c]
      · simp [Gen.storeSszSize]; omega
      · simp [TxMd.isEmpty]
      · have c2 : ¬ ((codeU8 Gen.storeExtraAttrCode :: (beN Gen.storeSszSize e.length ++ e)).length > Gen.storeMaxTxMetadataLen) := by
          simp [Gen.storeSszSize]; omega
        unfold txmdReadFrom
        rw [if_neg c2, txmdLoop_extra_end (by simp) h]
  | some id =>
    cases e with
    | none =>
      simp only [TxMd.wf, Bool.and_true, decide_eq_true_eq] at h
      refine ⟨codeU8 Gen.storeTruncatedUptoTxAttrCode :: beN Gen.storeTxIDSize id, ?_, ?_, ?_, ?_⟩
      · simp [txmdBytes]
      · simp [Gen.storeTxIDSize]; omega
      · simp [TxMd.isEmpty]
      · have c2 : ¬ ((codeU8 Gen.storeTruncatedUptoTxAttrCode :: beN Gen.storeTxIDSize id).length > Gen.storeMaxTxMetadataLen) := by
          simp [Gen.storeTxIDSize]; omega
        unfold txmdReadFrom
        rw [if_neg c2, txmdLoop_trunc_end (by simp) h]
    | some e =>
      simp only [TxMd.wf, Bool.and_eq_true, decide_eq_true_eq] at h
      have c : ¬ (e.length > Gen.storeMaxExtraLen) := by omega
      refine ⟨codeU8 Gen.storeTruncatedUptoTxAttrCode :: (beN Gen.storeTxIDSize id ++
        (codeU8 Gen.storeExtraAttrCode :: (beN Gen.storeSszSize e.length ++ e))), ?_, ?_, ?_, ?_⟩
      · simp [txmdBytes, extraSerialize, c]
      · simp [Gen.storeTxIDSize, Gen.storeSszSize]; omega
      · simp [TxMd.isEmpty]
      · have hL : (codeU8 Gen.storeTruncatedUptoTxAttrCode :: (beN Gen.storeTxIDSize id ++
            (codeU8 Gen.storeExtraAttrCode :: (beN Gen.storeSszSize e.length ++ e)))).length = 12 + e.length := by
          simp [Gen.storeTxIDSize, Gen.storeSszSize]; omega
        unfold txmdReadFrom
        rw [hL, if_neg (by omega), txmdLoop_trunc (by omega) h.1, txmdLoop_extra_end (by omega) h.2]

-- ---------------------------------------------------------------- what ReadFrom accepts

theorem beVal_lt_pow (b : Bytes) : beVal b < 256 ^ b.length := by
  induction b with
  | nil => simp [beVal]
  | cons x xs ih =>
    simp only [beVal, List.length_cons, Nat.pow_succ]
    have hx : x.toNat < 256 := x.toNat_lt
    have h1 : x.toNat * 256 ^ xs.length ≤ 255 * 256 ^ xs.length :=
      Nat.mul_le_mul_right _ (by omega)
    generalize 256 ^ xs.length = P at *
    omega

theorem beVal_take8_lt (r : Bytes) : beVal (r.take 8) < two64 := by
  have h := beVal_lt_pow (r.take 8)
  have hl : (r.take 8).length ≤ 8 := by simp; omega
  have : 256 ^ (r.take 8).length ≤ 256 ^ 8 := Nat.pow_le_pow_right (by decide) hl
  have h8 : (256 : Nat) ^ 8 = two64 := by decide
  omega

/-- "no panic, and an accepted value is within the API limits" -/
def OkWf (x : Except Fault TxMd) : Prop :=
  match x with
  | .ok md' => md'.wf = true
  | .error f => f ≠ Fault.panic

theorem OkWf.corrupted : OkWf (.error .corrupted) := by simp [OkWf]

/-- The attribute loop never panics (the fuel covers the remaining bytes) and keeps the metadata
within the API limits: ids are uint64, `extra` has at most `maxExtraLen` bytes. -/
theorem txmdLoop_spec : ∀ (fuel : Nat) (r : Bytes) (md : TxMd), r.length ≤ fuel → md.wf = true →
    OkWf (txmdLoop fuel r md) := by
  intro fuel
  induction fuel with
  | zero =>
    intro r md hf hmd
    cases r with
    | nil => simpa [txmdLoop, OkWf] using hmd
    | cons c r => simp at hf
  | succ fuel ih =>
    intro r md hf hmd
    cases r with
    | nil => simpa [txmdLoop, OkWf] using hmd
    | cons c r =>
      have h8 : Gen.storeTxIDSize = 8 := rfl
      have h2 : Gen.storeSszSize = 2 := rfl
      simp only [List.length_cons] at hf
      unfold txmdLoop
      split
      · split
        · exact OkWf.corrupted
        · refine ih _ _ (by simp only [List.length_drop]; omega) ?_
          simp only [TxMd.wf, Bool.and_eq_true, decide_eq_true_eq] at hmd ⊢
          refine ⟨?_, hmd.2⟩
          rw [h8]; exact beVal_take8_lt r
      · split
        · split
          · exact OkWf.corrupted
          · simp only []
            split
            · exact OkWf.corrupted
            · rename_i hg
              refine ih _ _ (by simp only [List.length_drop]; omega) ?_
              simp only [TxMd.wf, Bool.and_eq_true, decide_eq_true_eq] at hmd ⊢
              refine ⟨hmd.1, ?_⟩
              simp only [List.length_take, List.length_drop]
              omega
        · exact OkWf.corrupted

/-- `TxMetadata.ReadFrom` never panics, and what it accepts is within the limits of
`WithTruncatedTxID` / `WithExtra`. -/
theorem txmdReadFrom_spec (b : Bytes) : OkWf (txmdReadFrom b) := by
  unfold txmdReadFrom
  split
  · exact OkWf.corrupted
  · exact txmdLoop_spec b.length b {} (Nat.le_refl _) (by decide)

-- ---------------------------------------------------------------- KVMetadata

@[simp] theorem kvmdLoop_nil (fuel : Nat) (md : KVMd) : kvmdLoop fuel [] md = .ok md := by
  cases fuel <;> rfl

theorem kvmdLoop_deleted {fuel : Nat} (hf : 0 < fuel) (rest : Bytes) (md : KVMd) :
    kvmdLoop fuel (codeU8 Gen.storeDeletedAttrCode :: rest) md =
      kvmdLoop (fuel - 1) rest { md with deleted := true } := by
  cases fuel with
  | zero => omega
  | succ f => simp [kvmdLoop]

theorem kvmdLoop_nonIndexable {fuel : Nat} (hf : 0 < fuel) (rest : Bytes) (md : KVMd) :
    kvmdLoop fuel (codeU8 Gen.storeNonIndexableAttrCode :: rest) md =
      kvmdLoop (fuel - 1) rest { md with nonIndexable := true } := by
  cases fuel with
  | zero => omega
  | succ f => simp [kvmdLoop, code_kv2, code_kv3]

theorem kvmdLoop_expires {fuel : Nat} (hf : 0 < fuel) {t : Int} (ht : InI64 t) (rest : Bytes)
    (md : KVMd) :
    kvmdLoop fuel (codeU8 Gen.storeExpiresAtAttrCode :: (beN Gen.storeTsSize (u64 t) ++ rest)) md =
      kvmdLoop (fuel - 1) rest { md with expiresAt := some t } := by
  cases fuel with
  | zero => omega
  | succ f =>
    have h8 : Gen.storeTsSize = 8 := rfl
    have hl : (beN Gen.storeTsSize (u64 t)).length = Gen.storeTsSize := beN_length _ _
    have c : ¬ ((beN Gen.storeTsSize (u64 t) ++ rest).length < Gen.storeTsSize) := by simp
    have hv : beVal (beN Gen.storeTsSize (u64 t)) = u64 t := by
      apply beVal_beN_small; rw [h8]; exact u64_lt t
    simp only [kvmdLoop, code_kv1, if_false, if_true, c, take_app hl, drop_app hl, hv, i64_u64 ht,
      Nat.add_sub_cancel]

theorem kvmdLoop_expires_end {fuel : Nat} (hf : 0 < fuel) {t : Int} (ht : InI64 t) (md : KVMd) :
    kvmdLoop fuel (codeU8 Gen.storeExpiresAtAttrCode :: beN Gen.storeTsSize (u64 t)) md =
      .ok { md with expiresAt := some t } := by
  have := kvmdLoop_expires hf ht [] md
  simp only [List.append_nil] at this
  rw [this]; simp

theorem kvmd_roundtrip_aux (md : KVMd) (h : md.wf = true) :
    (kvmdBytes md).length ≤ Gen.storeMaxKVMetadataLen ∧ kvmdReadFrom (kvmdBytes md) = .ok md := by
  have hm : Gen.storeMaxKVMetadataLen = 11 := rfl
  have h8 : Gen.storeTsSize = 8 := rfl
  obtain ⟨d, x, ni⟩ := md
  have hlen : (kvmdBytes ⟨d, x, ni⟩).length ≤ Gen.storeMaxKVMetadataLen := by
    cases d <;> cases x <;> cases ni <;> simp [kvmdBytes, hm, h8]
  refine ⟨hlen, ?_⟩
  unfold kvmdReadFrom
  rw [if_neg (by omega)]
  cases x with
  | none =>
    cases d <;> cases ni <;> simp [kvmdBytes, kvmdLoop_deleted, kvmdLoop_nonIndexable]
  | some t =>
    simp only [KVMd.wf, decide_eq_true_eq] at h
    cases d <;> cases ni
    · simp only [kvmdBytes, Bool.false_eq_true, if_false, List.nil_append, List.append_nil]
      rw [kvmdLoop_expires_end (by simp) h]
    · simp only [kvmdBytes, Bool.false_eq_true, if_false, if_true, List.nil_append, List.cons_append]
      rw [kvmdLoop_expires (by simp) h, kvmdLoop_nonIndexable (by simp)]
      simp
    · simp only [kvmdBytes, Bool.false_eq_true, if_false, if_true, List.append_nil, List.cons_append, List.nil_append]
      rw [kvmdLoop_deleted (by simp), kvmdLoop_expires_end (by simp) h]
    · simp only [kvmdBytes, if_true, List.cons_append, List.nil_append]
      rw [kvmdLoop_deleted (by simp), kvmdLoop_expires (by simp) h, kvmdLoop_nonIndexable (by simp)]
      simp

end ImmuModel.Tx
