/-
C07 — proof of the export/parse round trip (`ExportTx` framing read back by `ReplicateTx`), and of
the totality of the parser: no run-time panic on any byte string; the inputs on which the framing
panicked before its repair are rejected with an error.
-/
import ImmuModel.Tx.Export
import ImmuModel.Tx.Proofs.HdrRT
import ImmuModel.Tx.Proofs.MdRT

namespace ImmuModel.Tx.ExportRTAux
open ImmuModel ImmuModel.GoInt ImmuModel.Tx

theorem e2 : Gen.storeSszSize = 2 := rfl
theorem e4 : Gen.storeLszSize = 4 := rfl

/-- one round of the entry loop on a well-framed entry -/
theorem parseEntries_step (n : Nat) (key mdb payload rest : Bytes) (md : Option KVMd)
    (hk : key.length < 65536) (hm : mdb.length < 65536) (hp : payload.length < 4294967296)
    (hmd : (mdb.length = 0 ∧ md = none) ∨
           (0 < mdb.length ∧ ∃ m, md = some m ∧ kvmdReadFrom mdb = .ok m)) :
    parseEntries (n + 1)
        (beN 2 key.length ++ (key ++ (beN 2 mdb.length ++ (mdb ++ (beN 4 payload.length ++ (payload ++ rest)))))) =
      (match parseEntries n rest with
       | .error x => .error x
       | .ok (es, r) => .ok ({ key := key, md := md, payload := payload } :: es, r)) := by
  have vk : beVal (beN 2 key.length) = key.length := beVal_beN_small (by simpa using hk)
  have vm : beVal (beN 2 mdb.length) = mdb.length := beVal_beN_small (by simpa using hm)
  have vp : beVal (beN 4 payload.length) = payload.length := beVal_beN_small (by simpa using hp)
  have l2k : (beN 2 key.length).length = 2 := beN_length _ _
  have l2m : (beN 2 mdb.length).length = 2 := beN_length _ _
  have l4 : (beN 4 payload.length).length = 4 := beN_length _ _
  have c1 : ¬ ((beN 2 key.length ++ (key ++ (beN 2 mdb.length ++ (mdb ++ (beN 4 payload.length ++ (payload ++ rest)))))).length < 2 * 2 + 4) := by
    simp; omega
  have c2 : ¬ ((key ++ (beN 2 mdb.length ++ (mdb ++ (beN 4 payload.length ++ (payload ++ rest))))).length < 2 + 4 + key.length) := by
    simp; omega
  have c3 : ¬ ((mdb ++ (beN 4 payload.length ++ (payload ++ rest))).length < mdb.length) := by
    simp
  have c4 : ¬ ((beN 4 payload.length ++ (payload ++ rest)).length < 4) := by simp
  have c5 : ¬ ((payload ++ rest).length < payload.length) := by simp
  rcases hmd with ⟨hz, hnone⟩ | ⟨hpos, m, hsome, hread⟩
  · have c0 : ¬ (mdb.length > 0) := by omega
    subst hnone
    simp only [parseEntries, e2, e4, c1, if_false, take_app l2k, drop_app l2k, vk, c2,
      List.take_left, List.drop_left, take_app l2m, drop_app l2m, vm, c3, c0,
      c4, take_app l4, drop_app l4, vp, c5]
    cases parseEntries n rest with
    | error e => rfl
    | ok p => cases p; rfl
  · subst hsome
    simp only [parseEntries, e2, e4, c1, if_false, if_true, take_app l2k, drop_app l2k, vk, c2,
      List.take_left, List.drop_left, take_app l2m, drop_app l2m, vm, c3, hpos, hread,
      c4, take_app l4, drop_app l4, vp, c5]
    cases parseEntries n rest with
    | error e => rfl
    | ok p => cases p; rfl

theorem kvmdBytesOpt_facts (md : Option KVMd)
    (h : (match md with | none => true | some m => m.wf && decide ((kvmdBytes m).length > 0)) = true) :
    (kvmdBytesOpt md).length < 65536 ∧
    (((kvmdBytesOpt md).length = 0 ∧ md = none) ∨
     (0 < (kvmdBytesOpt md).length ∧ ∃ m, md = some m ∧ kvmdReadFrom (kvmdBytesOpt md) = .ok m)) := by
  cases md with
  | none => exact ⟨by simp [kvmdBytesOpt], Or.inl ⟨rfl, rfl⟩⟩
  | some m =>
    simp only [Bool.and_eq_true, decide_eq_true_eq] at h
    obtain ⟨h1, h2⟩ := kvmd_roundtrip_aux m h.1
    have hm : Gen.storeMaxKVMetadataLen = 11 := rfl
    refine ⟨?_, Or.inr ⟨h.2, m, rfl, h2⟩⟩
    show (kvmdBytes m).length < 65536
    omega

theorem parseEntries_entry (n : Nat) (e : PEntry) (he : e.wf = true) (rest : Bytes) :
    parseEntries (n + 1) (entryBytes e ++ rest) =
      (match parseEntries n rest with
       | .error x => .error x
       | .ok (es, r) => .ok (e :: es, r)) := by
  obtain ⟨key, md, payload⟩ := e
  simp only [PEntry.wf, Bool.and_eq_true, decide_eq_true_eq] at he
  obtain ⟨⟨hk, hp⟩, hmd⟩ := he
  obtain ⟨hm, hcase⟩ := kvmdBytesOpt_facts md hmd
  simp only [entryBytes, e2, e4, List.append_assoc]
  exact parseEntries_step n key (kvmdBytesOpt md) payload rest md hk hm hp hcase

theorem parseEntries_all (es : List PEntry) (hes : es.all PEntry.wf = true) (tail : Bytes) :
    parseEntries es.length (es.flatMap entryBytes ++ tail) = .ok (es, tail) := by
  induction es with
  | nil => simp [parseEntries]
  | cons e es ih =>
    simp only [List.all_cons, Bool.and_eq_true] at hes
    simp only [List.flatMap_cons, List.length_cons, List.append_assoc]
    rw [parseEntries_entry _ e hes.1, ih hes.2]

theorem parseTrailer_trailer (t : Bool) : parseTrailer (trailerBytes t) = .ok t := by
  cases t <;> decide

theorem parseTrailer_nil : parseTrailer [] = .ok false := by decide

theorem hdrBytes_len (h : TxHdr) (hw : h.wf = true) (hb : Bytes) (hh : hdrBytes h = .ok hb) :
    0 < hb.length ∧ hb.length < 4294967296 := by
  obtain ⟨id, ts, bl, blRoot, prevAlh, version, md, n, eh⟩ := h
  simp only [TxHdr.wf, Bool.and_eq_true, Bool.or_eq_true, decide_eq_true_eq] at hw
  obtain ⟨⟨⟨⟨⟨⟨⟨⟨⟨hid1, hid2⟩, hts⟩, hbl⟩, hR⟩, hP⟩, hE⟩, hn1⟩, hmd⟩, hver⟩ := hw
  have hmdx : ∃ mdbs, mdBytesOpt md = .ok mdbs ∧ mdbs.length ≤ 268 := by
    cases md with
    | none => exact ⟨[], rfl, by simp⟩
    | some m =>
      obtain ⟨mb, h1, h2, _, _⟩ := txmd_roundtrip_aux m hmd
      exact ⟨mb, h1, h2⟩
  obtain ⟨mdbs, hmb, hml⟩ := hmdx
  simp only [hdrBytes, hmb] at hh
  split at hh
  · split at hh
    · cases hh
    · cases hh
      simp [hP, hE, hR, Gen.storeTxIDSize, Gen.storeTsSize, Gen.storeSszSize]
  · split at hh
    · cases hh
      simp [hP, hE, hR, Gen.storeTxIDSize, Gen.storeTsSize, Gen.storeSszSize, Gen.storeLszSize]
      omega
    · cases hh

theorem parseExported_frame (hb tail : Bytes) (hdr : TxHdr) (es : List PEntry) (t : Bool)
    (_hL0 : 0 < hb.length) (hL : hb.length < 4294967296) (hr : hdrReadFrom hb = .ok hdr)
    (hn : hdr.nentries.toNat = es.length) (hes : es.all PEntry.wf = true)
    (ht : parseTrailer tail = .ok t) :
    parseExported (beN 4 hb.length ++ (hb ++ (es.flatMap entryBytes ++ tail))) =
      .ok { hdr := hdr, entries := es, truncated := t } := by
  have vl : beVal (beN 4 hb.length) = hb.length := beVal_beN_small (by simpa using hL)
  have l4 : (beN 4 hb.length).length = 4 := beN_length _ _
  have c0 : ¬ ((beN 4 hb.length ++ (hb ++ (es.flatMap entryBytes ++ tail))).length = 0) := by
    simp
  have c1 : ¬ ((beN 4 hb.length ++ (hb ++ (es.flatMap entryBytes ++ tail))).length < 4) := by
    simp
  have c2 : ¬ ((hb ++ (es.flatMap entryBytes ++ tail)).length < hb.length) := by simp
  simp only [parseExported, e4, c0, c1, if_false, take_app l4, drop_app l4, vl, c2,
    List.take_left, List.drop_left, hr, hn, parseEntries_all es hes tail, ht]

theorem parsed_wf_facts (x : Parsed) (hw : x.wf = true) :
    ∃ hb, hdrBytes x.hdr = .ok hb ∧ 0 < hb.length ∧ hb.length < 4294967296 ∧
      hdrReadFrom hb = .ok x.hdr.norm ∧ x.hdr.norm.nentries.toNat = x.entries.length ∧
      x.entries.all PEntry.wf = true := by
  simp only [Parsed.wf, Bool.and_eq_true, decide_eq_true_eq] at hw
  obtain ⟨⟨hh, hn⟩, hes⟩ := hw
  obtain ⟨hb, h1, h2⟩ := hdr_roundtrip_aux x.hdr hh
  obtain ⟨h3, h4⟩ := hdrBytes_len x.hdr hh hb h1
  refine ⟨hb, h1, h3, h4, h2, ?_, hes⟩
  show x.hdr.nentries.toNat = x.entries.length
  omega


-- ------------------------------------------------------------------ the parser has no run-time panic
theorem kvmdLoop_noPanic : ∀ (fuel : Nat) (r : Bytes) (md : KVMd), r.length ≤ fuel →
    kvmdLoop fuel r md ≠ .error .panic := by
  intro fuel
  induction fuel with
  | zero =>
    intro r md h
    cases r with
    | nil => simp
    | cons a t => simp at h
  | succ f ih =>
    intro r md h
    cases r with
    | nil => simp
    | cons code t =>
      simp only [List.length_cons] at h
      unfold kvmdLoop
      split
      · exact ih _ _ (by omega)
      · split
        · split
          · simp
          · exact ih _ _ (by simp only [List.length_drop]; omega)
        · split
          · exact ih _ _ (by omega)
          · simp

theorem kvmdReadFrom_noPanic (b : Bytes) : kvmdReadFrom b ≠ .error .panic := by
  unfold kvmdReadFrom
  split
  · simp
  · exact kvmdLoop_noPanic _ _ _ (Nat.le_refl _)

theorem ofFault_panic {f : Fault} (h : XErr.ofFault f = .panic) : f = .panic := by
  cases f <;> simp [XErr.ofFault] at h ⊢

theorem parseEntries_noPanic : ∀ (n : Nat) (r : Bytes), parseEntries n r ≠ .error .panic := by
  intro n
  induction n with
  | zero => intro r; simp [parseEntries]
  | succ n ih =>
    intro r h
    unfold parseEntries at h
    simp only at h
    split at h
    · cases h
    · split at h
      · cases h
      · split at h
        · cases h
        · split at h
          · rename_i e hmd
            cases h
            split at hmd
            · split at hmd
              · rename_i f hf
                injection hmd with hmd
                have := ofFault_panic hmd
                subst this
                exact kvmdReadFrom_noPanic _ hf
              · cases hmd
            · cases hmd
          · split at h
            · cases h
            · split at h
              · cases h
              · split at h
                · rename_i e he
                  cases h
                  exact ih _ he
                · cases h

theorem parseTrailer_noPanic (r : Bytes) : parseTrailer r ≠ .error .panic := by
  unfold parseTrailer
  repeat (first | split | simp)

theorem parseExported_noPanic (b : Bytes) : parseExported b ≠ .error .panic := by
  intro h
  unfold parseExported at h
  simp only at h
  split at h
  · cases h
  · split at h
    · cases h
    · split at h
      · cases h
      · split at h
        · rename_i f hf
          injection h with h
          have := ofFault_panic h
          subst this
          exact hdrReadFrom_noPanic _ hf
        · split at h
          · rename_i e he
            cases h
            exact parseEntries_noPanic _ _ he
          · split at h
            · rename_i e he
              cases h
              exact parseTrailer_noPanic _ he
            · cases h

/-- the frame around the entries, whatever follows the header -/
theorem parseExported_frame_gen (hb rest : Bytes) (hdr : TxHdr)
    (hL : hb.length < 4294967296) (hr : hdrReadFrom hb = .ok hdr) :
    parseExported (beN 4 hb.length ++ (hb ++ rest)) =
      (match parseEntries hdr.nentries.toNat rest with
       | .error e => .error e
       | .ok (es, r) =>
         match parseTrailer r with
         | .error e => .error e
         | .ok t => .ok { hdr := hdr, entries := es, truncated := t }) := by
  have vl : beVal (beN 4 hb.length) = hb.length := beVal_beN_small (by simpa using hL)
  have l4 : (beN 4 hb.length).length = 4 := beN_length _ _
  have c0 : ¬ ((beN 4 hb.length ++ (hb ++ rest)).length = 0) := by simp
  have c1 : ¬ ((beN 4 hb.length ++ (hb ++ rest)).length < 4) := by simp
  have c2 : ¬ ((hb ++ rest).length < hb.length) := by simp
  simp only [parseExported, e4, c0, c1, if_false, take_app l4, drop_app l4, vl, c2,
    List.take_left, List.drop_left, hr]
  cases parseEntries hdr.nentries.toNat rest with
  | error e => rfl
  | ok p => cases p; rfl

/-- well-framed entries followed by anything: the loop reads them and goes on with the rest -/
theorem parseEntries_append (es : List PEntry) (hes : es.all PEntry.wf = true) (n : Nat) (tail : Bytes) :
    parseEntries (es.length + n) (es.flatMap entryBytes ++ tail) =
      (match parseEntries n tail with
       | .error x => .error x
       | .ok (es', r) => .ok (es ++ es', r)) := by
  induction es with
  | nil =>
    simp only [List.length_nil, Nat.zero_add, List.flatMap_nil, List.nil_append]
    cases parseEntries n tail with
    | error e => rfl
    | ok p => cases p; rfl
  | cons e es ih =>
    simp only [List.all_cons, Bool.and_eq_true] at hes
    simp only [List.flatMap_cons, List.length_cons, List.append_assoc]
    rw [show es.length + 1 + n = (es.length + n) + 1 by omega, parseEntries_entry _ e hes.1, ih hes.2]
    cases parseEntries n tail with
    | error e => rfl
    | ok p => cases p; rfl

/-- an entry with kv-metadata cut inside its value-length field (fewer than `lszSize` bytes left
after the metadata): `ErrIllegalArguments` — from the new check before `vLen`, or already from the
check before the key when metadata and rest together are shorter than `lszSize` -/
theorem parseEntries_cut_vLen (n : Nat) (key mdb cut : Bytes) (m : KVMd)
    (hk : key.length < 65536) (hm : mdb.length < 65536) (hpos : 0 < mdb.length)
    (hread : kvmdReadFrom mdb = .ok m) (hc : cut.length < 4) :
    parseEntries (n + 1) (beN 2 key.length ++ (key ++ (beN 2 mdb.length ++ (mdb ++ cut)))) = .error .illegal := by
  have vk : beVal (beN 2 key.length) = key.length := beVal_beN_small (by simpa using hk)
  have vm : beVal (beN 2 mdb.length) = mdb.length := beVal_beN_small (by simpa using hm)
  have l2k : (beN 2 key.length).length = 2 := beN_length _ _
  have l2m : (beN 2 mdb.length).length = 2 := beN_length _ _
  by_cases c1 : (beN 2 key.length ++ (key ++ (beN 2 mdb.length ++ (mdb ++ cut)))).length < 2 * 2 + 4
  · simp only [parseEntries, e2, e4, c1, if_true]
  · by_cases c2 : (key ++ (beN 2 mdb.length ++ (mdb ++ cut))).length < 2 + 4 + key.length
    · simp only [parseEntries, e2, e4, c1, if_false, take_app l2k, drop_app l2k, vk, c2, if_true]
    · have c3 : ¬ ((mdb ++ cut).length < mdb.length) := by simp
      have c4 : cut.length < 4 := hc
      simp only [parseEntries, e2, e4, c1, if_false, if_true, take_app l2k, drop_app l2k, vk, c2,
        List.take_left, List.drop_left, take_app l2m, drop_app l2m, vm, c3, hpos, hread, c4]

end ImmuModel.Tx.ExportRTAux

namespace ImmuModel.Tx
open ImmuModel ImmuModel.GoInt ImmuModel.Tx.ExportRTAux

theorem export_parse_roundtrip_aux (x : Parsed) (hw : x.wf = true) :
    ∃ b, exportTx x = .ok b ∧ parseExported b = .ok { x with hdr := x.hdr.norm } := by
  obtain ⟨hb, h1, h3, h4, h2, hn, hes⟩ := parsed_wf_facts x hw
  refine ⟨beN 4 hb.length ++ (hb ++ (x.entries.flatMap entryBytes ++ trailerBytes x.truncated)), ?_, ?_⟩
  · simp only [exportTx, h1, e4, List.append_assoc]
  · exact parseExported_frame hb _ _ _ _ h3 h4 h2 hn hes (parseTrailer_trailer _)

/-- The trailer is optional for the parser: the same bytes without the 3 trailer bytes parse to the
same transaction when the flag is 0. -/
theorem parse_without_trailer_aux (x : Parsed) (hw : x.wf = true) (ht : x.truncated = false) :
    ∃ hb, hdrBytes x.hdr = .ok hb ∧
      parseExported (beN Gen.storeLszSize hb.length ++ hb ++ x.entries.flatMap entryBytes) =
        .ok { x with hdr := x.hdr.norm } := by
  obtain ⟨hb, h1, h3, h4, h2, hn, hes⟩ := parsed_wf_facts x hw
  refine ⟨hb, h1, ?_⟩
  have := parseExported_frame hb [] _ _ _ h3 h4 h2 hn hes parseTrailer_nil
  simp only [List.append_nil] at this
  simp only [e4, List.append_assoc]
  rw [this, ht]

/-- **The parsing part of `ReplicateTx` never panics**, for every byte string. -/
theorem parseExported_never_panics (b : Bytes) : parseExported b ≠ .error .panic :=
  parseExported_noPanic b

/-- A genuine export whose 3 trailer bytes are replaced by ONE byte is `ErrIllegalArguments`; replaced
by a trailer of length 0 (`00 00`, whatever follows) it is `ErrIllegalTruncationArgument`.  (Both
made `ReplicateTx` panic before the framing was repaired.) -/
theorem parse_malformed_trailer_aux (x : Parsed) (hw : x.wf = true) (y : UInt8) (more : Bytes) :
    ∃ hb, hdrBytes x.hdr = .ok hb ∧
      parseExported (beN Gen.storeLszSize hb.length ++ hb ++ x.entries.flatMap entryBytes ++ [y]) =
        .error .illegal ∧
      parseExported (beN Gen.storeLszSize hb.length ++ hb ++ x.entries.flatMap entryBytes ++ 0 :: 0 :: more) =
        .error .illegalTruncation := by
  obtain ⟨hb, h1, _, h4, h2, hn, hes⟩ := parsed_wf_facts x hw
  refine ⟨hb, h1, ?_, ?_⟩
  · have := parseExported_frame_gen hb (x.entries.flatMap entryBytes ++ [y]) _ h4 h2
    rw [hn, parseEntries_all x.entries hes] at this
    simp only [e4, List.append_assoc]
    rw [this]
    rfl
  · have := parseExported_frame_gen hb (x.entries.flatMap entryBytes ++ 0 :: 0 :: more) _ h4 h2
    rw [hn, parseEntries_all x.entries hes] at this
    simp only [e4, List.append_assoc]
    rw [this]
    have hl : ¬ (more.length + 1 + 1 < 2) := by omega
    simp [parseTrailer, e2, beVal, hl]

/-- A genuine export cut inside the value-length field of its LAST entry, that entry carrying
kv-metadata (fewer than `lszSize` bytes after the metadata), is `ErrIllegalArguments`.  (The bound
checked before the key does not account for the metadata: `Uint32(exportedTx[i:])` panicked.) -/
theorem parse_cut_value_length_aux (x : Parsed) (hw : x.wf = true) (es : List PEntry) (e : PEntry) (m : KVMd)
    (hx : x.entries = es ++ [e]) (hm : e.md = some m) (cut : Bytes) (hc : cut.length < Gen.storeLszSize) :
    ∃ hb, hdrBytes x.hdr = .ok hb ∧
      parseExported (beN Gen.storeLszSize hb.length ++ hb ++ es.flatMap entryBytes ++
        (beN Gen.storeSszSize e.key.length ++ e.key ++
         beN Gen.storeSszSize (kvmdBytes m).length ++ kvmdBytes m ++ cut)) = .error .illegal := by
  obtain ⟨hb, h1, _, h4, h2, hn, hes⟩ := parsed_wf_facts x hw
  refine ⟨hb, h1, ?_⟩
  rw [hx] at hn hes
  simp only [List.all_append, List.all_cons, List.all_nil, Bool.and_true, Bool.and_eq_true] at hes
  obtain ⟨hes, he⟩ := hes
  obtain ⟨key, md, payload⟩ := e
  simp only at hm
  subst hm
  simp only [PEntry.wf, Bool.and_eq_true, decide_eq_true_eq] at he
  obtain ⟨⟨hk, _⟩, hmd⟩ := he
  obtain ⟨hml, hcase⟩ := kvmdBytesOpt_facts (some m)
    (by simp only [Bool.and_eq_true, decide_eq_true_eq]; exact hmd)
  rcases hcase with ⟨_, hnone⟩ | ⟨hpos, m', hsome, hread⟩
  · cases hnone
  · cases hsome
    have hcut := parseEntries_cut_vLen 0 key (kvmdBytes m) cut m hk hml hpos hread hc
    have := parseExported_frame_gen hb (es.flatMap entryBytes ++
      (beN 2 key.length ++ (key ++ (beN 2 (kvmdBytes m).length ++ (kvmdBytes m ++ cut))))) _ h4 h2
    rw [hn] at this
    simp only [List.length_append, List.length_cons, List.length_nil] at this
    rw [parseEntries_append es hes (0 + 1), hcut] at this
    simp only [e2, e4, List.append_assoc]
    exact this

end ImmuModel.Tx
