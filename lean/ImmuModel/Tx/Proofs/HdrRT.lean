/-
C15 helper lemmas: round trip of the TxHeader codec.
-/
import ImmuModel.Tx.HeaderCodec
import ImmuModel.Tx.Proofs.MdRT
namespace ImmuModel.Tx
open ImmuModel ImmuModel.GoInt

theorem copy32_exact {x : Bytes} (h : x.length = 32) (y : Bytes) : copy32 (x ++ y) = x := by
  unfold copy32 hashSize
  rw [take_app h]
  simp [h]

theorem readTail_ok {b E R : Bytes} {i id bl : Nat} (hb : b.drop i = E ++ (beN 8 bl ++ R))
    (hi : i ≤ b.length) (hE : E.length = 32) (hR : R.length = 32) (hbl : bl < two64)
    (hlt : bl < id) : readTail b i id = .ok (E, bl, R) := by
  have hlen : b.length = i + 72 := by
    have := congrArg List.length hb
    simp [hE, hR] at this
    omega
  have d1 : b.drop (i + hashSize) = beN 8 bl ++ R := by
    rw [← List.drop_drop, hb]; exact drop_app hE _
  have d2 : b.drop (i + hashSize + 8) = R := by
    rw [← List.drop_drop, d1]; exact drop_app (beN_length 8 bl) _
  have c0 : ¬ (b.length < i + hashSize + Gen.storeTxIDSize + hashSize) := by
    have : Gen.storeTxIDSize = 8 := rfl
    unfold hashSize; omega
  have c1 : ¬ (i > b.length) := by omega
  have c2 : ¬ (i + hashSize > b.length) := by unfold hashSize; omega
  have c3 : ¬ (i + hashSize + 8 > b.length) := by unfold hashSize; omega
  have c4 : ¬ ((beN 8 bl ++ R).length < 8) := by simp
  have c5 : ¬ (bl ≥ id) := by omega
  have hv : beVal (beN 8 bl) = bl := beVal_beN_small (by rw [show (256:Nat)^8 = two64 by decide]; exact hbl)
  have hR' : copy32 R = R := by
    have := copy32_exact hR []
    simpa using this
  simp only [readTail, c0, sliceFrom, c1, c2, c3, if_false, hb, d1, d2, u64At, c4,
    take_app (beN_length 8 bl), hv, c5, copy32_exact hE, hR']

theorem lowBits_small {w : Nat} {x : Int} (h0 : 0 ≤ x) (h1 : x < ((256 ^ w : Nat) : Int)) :
    lowBits w x = x.toNat := by
  unfold lowBits
  rw [Int.emod_eq_of_lt h0 h1]

theorem hdr_roundtrip_aux (h : TxHdr) (hw : h.wf = true) :
    ∃ bs, hdrBytes h = .ok bs ∧ hdrReadFrom bs = .ok h.norm := by
  obtain ⟨id, ts, bl, blRoot, prevAlh, version, md, n, eh⟩ := h
  simp only [TxHdr.wf, Bool.and_eq_true, Bool.or_eq_true, decide_eq_true_eq] at hw
  obtain ⟨⟨⟨⟨⟨⟨⟨⟨⟨hid1, hid2⟩, hts⟩, hbl⟩, hR⟩, hP⟩, hE⟩, hn1⟩, hmd⟩, hver⟩ := hw
  have hbl2 : bl < two64 := by omega
  have e8 : Gen.storeTxIDSize = 8 := rfl
  have e8' : Gen.storeTsSize = 8 := rfl
  have e2 : Gen.storeSszSize = 2 := rfl
  have e4 : Gen.storeLszSize = 4 := rfl
  have e268 : Gen.storeMaxTxMetadataLen = 268 := rfl
  have p8 : (256 : Nat) ^ 8 = two64 := by decide
  have hidv : beVal (beN 8 id) = id := beVal_beN_small (by rw [p8]; exact hid2)
  have htsv : i64 (beVal (beN 8 (u64 ts))) = ts := by
    rw [beVal_beN_small (by rw [p8]; exact u64_lt ts), i64_u64 hts]
  have cid : ¬ (id < 1) := by omega
  rcases hver with ⟨⟨hv, hn2⟩, hme⟩ | ⟨hv, hn2⟩
  · -- version 0
    subst hv
    have hmdb : mdBytesOpt md = .ok [] := by
      cases md with
      | none => rfl
      | some m =>
        obtain ⟨t, e⟩ := m
        cases t <;> cases e <;> simp [TxMd.isEmpty] at hme
        rfl
    have hnorm : (TxHdr.norm ⟨id, ts, bl, blRoot, prevAlh, 0, md, n, eh⟩) =
        ⟨id, ts, bl, blRoot, prevAlh, 0, none, n, eh⟩ := by
      cases md with
      | none => rfl
      | some m => simp [TxHdr.norm, hme]
    have hnv : lowBits 2 n = n.toNat := lowBits_small (by omega) (by simpa using hn2)
    have hnb : beVal (beN 2 n.toNat) = n.toNat := beVal_beN_small (by simp; omega)
    let bs : Bytes := beN 8 id ++ (prevAlh ++ (beN 8 (u64 ts) ++ (beN 2 0 ++ (beN 2 n.toNat ++ (eh ++ (beN 8 bl ++ blRoot))))))
    refine ⟨bs, ?_, ?_⟩
    · have hlb : lowBits 2 0 = 0 := by decide
      simp only [hdrBytes, hmdb, e8, e8', e2, hnv, hlb]
      simp [bs]
    · have hlen : bs.length = 124 := by simp [bs, hP, hE, hR]
      have t8 : bs.take 8 = beN 8 id := by simp [bs, List.take_append, List.take_of_length_le]
      have dP : (bs.drop 8).take 32 = prevAlh := by
        simp [bs, List.drop_append, List.take_append, hP, List.drop_eq_nil_of_le, List.take_of_length_le]
      have dT : (bs.drop 40).take 8 = beN 8 (u64 ts) := by
        simp [bs, List.drop_append, List.take_append, hP, List.drop_eq_nil_of_le, List.take_of_length_le]
      have dV : (bs.drop 48).take 2 = beN 2 0 := by
        simp [bs, List.drop_append, List.take_append, hP, List.drop_eq_nil_of_le, List.take_of_length_le]
      have dN : (bs.drop 50).take 2 = beN 2 n.toNat := by
        simp [bs, List.drop_append, List.take_append, hP, List.drop_eq_nil_of_le, List.take_of_length_le]
      have dTail : bs.drop 52 = eh ++ (beN 8 bl ++ blRoot) := by
        simp [bs, List.drop_append, hP, List.drop_eq_nil_of_le]
      have hv0 : beVal (beN 2 0) = 0 := by decide
      have hmid : readMid bs 0 = .ok (none, n.toNat, 52) := by
        simp [readMid, dN, hnb]
      have htail := readTail_ok (b := bs) (i := 52) (id := id) dTail (by omega) hE hR hbl2 hbl
      have cn : ¬ (n.toNat < 1) := by omega
      have cl : ¬ (bs.length < Gen.storeTxIDSize + hashSize + Gen.storeTsSize + 2 * Gen.storeSszSize + hashSize + Gen.storeTxIDSize + hashSize) := by
        rw [hlen]; decide
      have hnn : ((n.toNat : Nat) : Int) = n := by omega
      simp only [hdrReadFrom, cl, if_false, t8, hidv, cid, dP, dT, htsv, dV, hv0, hmid, cn, htail, hnorm]
      simp [hnn]
  · -- version 1
    subst hv
    have hnv : lowBits 4 n = n.toNat := lowBits_small (by omega) (by simpa using hn2)
    have hnb : beVal (beN 4 n.toNat) = n.toNat := beVal_beN_small (by simp; omega)
    -- metadata bytes and what is read back
    have hmdx : ∃ mdbs, mdBytesOpt md = .ok mdbs ∧ mdbs.length ≤ 268 ∧
        ((mdbs.length = 0 ∧ (TxHdr.norm ⟨id, ts, bl, blRoot, prevAlh, 1, md, n, eh⟩).md = none) ∨
         (0 < mdbs.length ∧ ∃ m, (TxHdr.norm ⟨id, ts, bl, blRoot, prevAlh, 1, md, n, eh⟩).md = some m ∧
            txmdReadFrom mdbs = .ok m)) := by
      cases md with
      | none => exact ⟨[], rfl, by simp, Or.inl ⟨rfl, rfl⟩⟩
      | some m =>
        obtain ⟨mb, h1, h2, h3, h4⟩ := txmd_roundtrip_aux m hmd
        refine ⟨mb, h1, by omega, ?_⟩
        by_cases c : mb.length = 0
        · exact Or.inl ⟨c, by simp [TxHdr.norm, h3.mp c]⟩
        · have : ¬ m.isEmpty = true := fun hh => c (h3.mpr hh)
          exact Or.inr ⟨by omega, m, by simp [TxHdr.norm, this], h4⟩
    obtain ⟨mdbs, hmb, hml, hcase⟩ := hmdx
    let tail : Bytes := beN 4 n.toNat ++ (eh ++ (beN 8 bl ++ blRoot))
    let bs : Bytes := beN 8 id ++ (prevAlh ++ (beN 8 (u64 ts) ++ (beN 2 1 ++ (beN 2 mdbs.length ++ (mdbs ++ tail)))))
    refine ⟨bs, ?_, ?_⟩
    · have hlb : lowBits 2 1 = 1 := by decide
      simp only [hdrBytes, hmb, e8, e8', e2, e4, hnv, hlb]
      simp [bs, tail]
    · have hlen : bs.length = 52 + mdbs.length + 76 := by simp [bs, tail, hP, hE, hR]; omega
      have t8 : bs.take 8 = beN 8 id := by simp [bs, List.take_append, List.take_of_length_le]
      have dP : (bs.drop 8).take 32 = prevAlh := by
        simp [bs, List.drop_append, List.take_append, hP, List.drop_eq_nil_of_le, List.take_of_length_le]
      have dT : (bs.drop 40).take 8 = beN 8 (u64 ts) := by
        simp [bs, List.drop_append, List.take_append, hP, List.drop_eq_nil_of_le, List.take_of_length_le]
      have dV : (bs.drop 48).take 2 = beN 2 1 := by
        simp [bs, List.drop_append, List.take_append, hP, List.drop_eq_nil_of_le, List.take_of_length_le]
      have dL : (bs.drop 50).take 2 = beN 2 mdbs.length := by
        simp [bs, List.drop_append, List.take_append, hP, List.drop_eq_nil_of_le, List.take_of_length_le]
      have d52 : bs.drop 52 = mdbs ++ tail := by
        simp [bs, List.drop_append, hP, List.drop_eq_nil_of_le]
      have dMD : (bs.drop 52).take mdbs.length = mdbs := by rw [d52]; exact List.take_left
      have dTl : bs.drop (52 + mdbs.length) = tail := by
        rw [← List.drop_drop, d52]; exact List.drop_left
      have dN : (bs.drop (52 + mdbs.length)).take 4 = beN 4 n.toNat := by
        rw [dTl]; exact take_app (beN_length 4 _) _
      have dTail : bs.drop (52 + mdbs.length + 4) = eh ++ (beN 8 bl ++ blRoot) := by
        rw [← List.drop_drop, dTl]; exact drop_app (beN_length 4 _) _
      have hv1 : beVal (beN 2 1) = 1 := by decide
      have hlv : beVal (beN 2 mdbs.length) = mdbs.length := beVal_beN_small (by simp; omega)
      have cg : ¬ (bs.length < 50 + 2 + mdbs.length + Gen.storeLszSize ∨ mdbs.length > Gen.storeMaxTxMetadataLen) := by
        rw [hlen, e4, e268]; omega
      have htail := readTail_ok (b := bs) (i := 52 + mdbs.length + 4) (id := id) dTail (by omega) hE hR hbl2 hbl
      have cn : ¬ (n.toNat < 1) := by omega
      have cl : ¬ (bs.length < Gen.storeTxIDSize + hashSize + Gen.storeTsSize + 2 * Gen.storeSszSize + hashSize + Gen.storeTxIDSize + hashSize) := by
        rw [hlen, e8, e8', e2]; unfold hashSize; omega
      have hnn : ((n.toNat : Nat) : Int) = n := by omega
      rcases hcase with ⟨hz, hnone⟩ | ⟨hpos, m, hsome, hread⟩
      · have hmid : readMid bs 1 = .ok (none, n.toNat, 52 + mdbs.length + 4) := by
          have c0 : ¬ (mdbs.length > 0) := by omega
          have dN' : (bs.drop (50 + 2)).take 4 = beN 4 n.toNat := by
            have : 50 + 2 = 52 + mdbs.length := by omega
            rw [this]; exact dN
          simp only [readMid, dL, hlv, cg, c0, if_false, dN', hnb]
          simp [hz]
        simp only [hdrReadFrom, cl, if_false, t8, hidv, cid, dP, dT, htsv, dV, hv1, hmid, cn, htail]
        simp only [TxHdr.norm] at hnone ⊢
        simp [hnn, hnone]
      · have hmid : readMid bs 1 = .ok (some m, n.toNat, 52 + mdbs.length + 4) := by
          have dMD' : (bs.drop (50 + 2)).take mdbs.length = mdbs := dMD
          have dN' : (bs.drop (50 + 2 + mdbs.length)).take 4 = beN 4 n.toNat := dN
          simp only [readMid, dL, hlv, cg, hpos, if_true, if_false, dMD', hread, dN', hnb]
          simp
        simp only [hdrReadFrom, cl, if_false, t8, hidv, cid, dP, dT, htsv, dV, hv1, hmid, cn, htail]
        simp only [TxHdr.norm] at hsome ⊢
        simp [hnn, hsome]


-- ---------------------------------------------------------------- ReadFrom never panics

theorem readTail_noPanic (b : Bytes) (i id : Nat) : readTail b i id ≠ .error .panic := by
  have h8 : Gen.storeTxIDSize = 8 := rfl
  by_cases c0 : b.length < i + hashSize + Gen.storeTxIDSize + hashSize
  · simp [readTail, c0]
  · have c1 : ¬ (i > b.length) := by unfold hashSize at c0; omega
    have c2 : ¬ (i + hashSize > b.length) := by unfold hashSize at *; omega
    have c3 : ¬ (i + hashSize + 8 > b.length) := by unfold hashSize at *; omega
    have c4 : ¬ ((b.drop (i + hashSize)).length < 8) := by
      simp only [List.length_drop]; unfold hashSize at *; omega
    simp only [readTail, sliceFrom, c0, c1, c2, c3, if_false, u64At, c4]
    split <;> simp

theorem readMid_noPanic (b : Bytes) (version : Nat) : readMid b version ≠ .error .panic := by
  unfold readMid
  simp only []
  split
  · simp
  · split
    · split
      · simp
      · split
        · have hs := txmdReadFrom_spec (List.take (beVal (List.take 2 (List.drop 50 b))) (List.drop (50 + 2) b))
          cases hr : txmdReadFrom (List.take (beVal (List.take 2 (List.drop 50 b))) (List.drop (50 + 2) b)) with
          | ok md => simp
          | error f =>
            rw [hr] at hs
            simp only [OkWf] at hs
            simpa using hs
        · simp
    · simp

/-- `TxHeader.ReadFrom` never panics (versions 0 and 1, any metadata, any length). -/
theorem hdrReadFrom_noPanic (b : Bytes) : hdrReadFrom b ≠ .error .panic := by
  unfold hdrReadFrom
  simp only []
  split
  · simp
  · split
    · simp
    · cases hm : readMid b (beVal (List.take 2 (List.drop 48 b))) with
      | error f =>
        have := readMid_noPanic b (beVal (List.take 2 (List.drop 48 b)))
        rw [hm] at this
        simpa using this
      | ok r =>
        obtain ⟨md, ne, i⟩ := r
        simp only []
        split
        · simp
        · cases ht : readTail b i (beVal (List.take 8 b)) with
          | error f =>
            have := readTail_noPanic b i (beVal (List.take 8 b))
            rw [ht] at this
            simpa using this
          | ok t => obtain ⟨eh, bl, br⟩ := t; simp

end ImmuModel.Tx
