/-
The single hash used by the store, abstractly: `H : Bytes → D` with a fixed-width injective
byte representation `enc` of digests (Go: `[sha256.Size]byte`).  NOTHING is assumed about
`H`: security theorems conclude `… ∨ HColl hs` with `HColl` an explicit collision of `H`.
-/
import ImmuModel.Merkle.Mth
import ImmuModel.Gen.Consts

namespace ImmuModel

structure Hs (D : Type) where
  H : Bytes → D
  enc : D → Bytes
  enc_len : ∀ d, (enc d).length = 32
  enc_inj : ∀ a b, enc a = enc b → a = b

def HColl {D : Type} (hs : Hs D) : Prop := ∃ a b, a ≠ b ∧ hs.H a = hs.H b

namespace Hs
variable {D : Type}

/-- The Merkle hash shapes of ahtree (prefix bytes regenerated from the source). -/
def mh (hs : Hs D) : Merkle.MH D where
  leafH b := hs.H (UInt8.ofNat Gen.ahtreeLeafPrefix :: b)
  nodeH l r := hs.H (UInt8.ofNat Gen.ahtreeNodePrefix :: (hs.enc l ++ hs.enc r))
  emptyH := hs.H []

/-- The Merkle hash shapes of htree. -/
def mhH (hs : Hs D) : Merkle.MH D where
  leafH b := hs.H (UInt8.ofNat Gen.htreeLeafPrefix :: b)
  nodeH l r := hs.H (UInt8.ofNat Gen.htreeNodePrefix :: (hs.enc l ++ hs.enc r))
  emptyH := hs.H []

/-- `leafFor(d)` of verification.go: `H(LeafPrefix ‖ d)`. -/
def leafFor (hs : Hs D) (d : D) : D := hs.mh.leafH (hs.enc d)

end Hs
end ImmuModel
