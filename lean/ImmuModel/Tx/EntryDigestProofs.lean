/-
C09 — proofs about the entry digest functions (`Tx/EntryDigest.lean`): which entries each of them
refuses, that the entry-tree root they produce binds key, kv metadata and value hash of every
entry (or exhibits a collision), how they relate to the parser of `Tx/Record.lean`, and that a
version-0 record re-serialised with kv metadata inserted into an entry is refused.  Core Lean only.
-/
import ImmuModel.Tx.EntryDigest
import ImmuModel.Tx.RecordAuth
import ImmuModel.Tx.RecordRoundTrip

namespace ImmuModel.Tx.Rec
open ImmuModel.Merkle
variable {D : Type}

namespace EDAux
open Auth

/-- `len(md.Bytes()) = 0` iff NO attribute is set. -/
theorem kvmd_bytes_nil_iff (m : KVMd) : m.bytes = [] ↔ m = {} := by
  obtain ⟨d, e, n⟩ := m
  cases d <;> cases e <;> cases n <;> simp [KVMd.bytes]

theorem digestFunc_ok {hs : HsD D} {v : Nat} {e : Entry D} {d : D} (h : digestFunc hs v e = .ok d) :
    (v = 0 ∨ v = 1) ∧ (v = 0 → e.md = []) ∧ d = entryDigest hs v e := by
  unfold digestFunc at h
  split at h
  · rename_i hv
    subst hv
    unfold entryDigestV11 at h
    split at h
    · cases h
    · rename_i hmd
      simp only [Except.ok.injEq] at h
      refine ⟨Or.inl rfl, fun _ => by simpa using hmd, ?_⟩
      simp [entryDigest, h]
  · split at h
    · rename_i hv0 hv
      subst hv
      simp only [entryDigestV12, Except.ok.injEq] at h
      refine ⟨Or.inr rfl, fun h0 => absurd h0 (by decide), ?_⟩
      simp [entryDigest, h]
    · cases h

theorem digestFunc_of_ok (hs : HsD D) (v : Nat) (e : Entry D) (hv : v = 0 ∨ v = 1) (hmd : v = 0 → e.md = []) :
    digestFunc hs v e = .ok (entryDigest hs v e) := by
  rcases hv with hv | hv
  · subst hv
    simp [digestFunc, entryDigestV11, entryDigest, hmd rfl]
  · subst hv
    simp [digestFunc, entryDigestV12, entryDigest]

theorem digestsOf_ok (hs : HsD D) (v : Nat) : ∀ (es : List (Entry D)) (ds : List D),
    digestsOf hs v es = .ok ds →
    ds = es.map (entryDigest hs v) ∧ (es ≠ [] → v = 0 ∨ v = 1) ∧ (v = 0 → ∀ e ∈ es, e.md = []) := by
  intro es
  induction es with
  | nil =>
    intro ds h
    simp only [digestsOf, Except.ok.injEq] at h
    subst h
    exact ⟨rfl, fun h => absurd rfl h, fun _ e he => by cases he⟩
  | cons e es ih =>
    intro ds h
    simp only [digestsOf] at h
    split at h
    · cases h
    rename_i d hd
    split at h
    · cases h
    rename_i ds' hds
    simp only [Except.ok.injEq] at h
    subst h
    obtain ⟨hv, hmd, hdd⟩ := digestFunc_ok hd
    obtain ⟨i1, _, i3⟩ := ih ds' hds
    refine ⟨by simp [hdd, i1], fun _ => hv, fun h0 x hx => ?_⟩
    simp only [List.mem_cons] at hx
    rcases hx with rfl | hx
    · exact hmd h0
    · exact i3 h0 x hx

theorem digestsOf_of_ok (hs : HsD D) (v : Nat) (hv : v = 0 ∨ v = 1) : ∀ (es : List (Entry D)),
    (v = 0 → ∀ e ∈ es, e.md = []) → digestsOf hs v es = .ok (es.map (entryDigest hs v)) := by
  intro es
  induction es with
  | nil => intro _; rfl
  | cons e es ih =>
    intro hmd
    have h1 := digestFunc_of_ok hs v e hv (fun h0 => hmd h0 e (by simp))
    have h2 := ih (fun h0 x hx => hmd h0 x (by simp [hx]))
    simp [digestsOf, h1, h2]

theorem ehChecked_ok {hs : HsD D} {v : Nat} {es : List (Entry D)} {d : D} (h : ehChecked hs v es = .ok d) :
    d = ehOf hs v es ∧ (es ≠ [] → v = 0 ∨ v = 1) ∧ (v = 0 → ∀ e ∈ es, e.md = []) := by
  unfold ehChecked at h
  split at h
  · cases h
  rename_i ds hds
  simp only [Except.ok.injEq] at h
  obtain ⟨h1, h2, h3⟩ := digestsOf_ok hs v es ds hds
  subst h1
  exact ⟨by rw [← h]; rfl, h2, h3⟩

/-- The entry-tree root computed by either digest function binds, per entry, the key, the kv
metadata and the value hash — or two different hash inputs with the same hash are exhibited. -/
theorem ehChecked_binds (hs : HsD D) (v : Nat) (es es' : List (Entry D)) (d : D)
    (hfit : ∀ e ∈ es, e.key.length < 2 ^ 16 ∧ e.md.length < 2 ^ 16)
    (hfit' : ∀ e ∈ es', e.key.length < 2 ^ 16 ∧ e.md.length < 2 ^ 16)
    (hlen : es.length = es'.length)
    (h : ehChecked hs v es = .ok d) (h' : ehChecked hs v es' = .ok d) :
    es.map (fun e => (e.md, e.key, e.hVal)) = es'.map (fun e => (e.md, e.key, e.hVal)) ∨ HColl hs.toHs := by
  obtain ⟨e1, hv1, hm1⟩ := ehChecked_ok h
  obtain ⟨e2, _, hm2⟩ := ehChecked_ok h'
  cases es with
  | nil =>
    cases es' with
    | nil => exact Or.inl rfl
    | cons _ _ => simp at hlen
  | cons x xs =>
    have hv := hv1 (by simp)
    have ok : ∀ e ∈ x :: xs, EntOK v e := fun e he =>
      ⟨(hfit e he).1, (hfit e he).2, fun h0 => hm1 h0 e he⟩
    have ok' : ∀ e ∈ es', EntOK v e := fun e he =>
      ⟨(hfit' e he).1, (hfit' e he).2, fun h0 => hm2 h0 e he⟩
    rw [e1, ehOf_eq_ehRef, ehOf_eq_ehRef] at e2
    unfold ehRef at e2
    rcases mth_inj_or_coll hs.toHs.mhH (x :: xs).length _ _ (by simp) (by simp [← hlen]) e2 with hm | hc
    · exact leaves_inj_or_coll hs v hv _ _ ok ok' hm
    · exact Or.inr (coll_mhH hs.toHs hc)

/-- One entry: equal digests under the same digest function ⇒ equal metadata, key, value hash. -/
theorem digestFunc_binds (hs : HsD D) (v : Nat) (e e' : Entry D) (d : D)
    (hfit : e.key.length < 2 ^ 16 ∧ e.md.length < 2 ^ 16)
    (hfit' : e'.key.length < 2 ^ 16 ∧ e'.md.length < 2 ^ 16)
    (h : digestFunc hs v e = .ok d) (h' : digestFunc hs v e' = .ok d) :
    (e.md, e.key, e.hVal) = (e'.md, e'.key, e'.hVal) ∨ HColl hs.toHs := by
  obtain ⟨hv, hm, hd⟩ := digestFunc_ok h
  obtain ⟨_, hm', hd'⟩ := digestFunc_ok h'
  exact entryDigest_inj_or_coll hs v hv e e' ⟨hfit.1, hfit.2, hm⟩ ⟨hfit'.1, hfit'.2, hm'⟩ (by rw [← hd, ← hd'])

/-- Which entries the legacy digest accepts, in terms of ATTRIBUTES: none set. -/
theorem v11_accepts_iff (hs : HsD D) (m : Option KVMd) (key : Bytes) (vLen vOff : Nat) (hVal : D) :
    (∃ d, entryDigestV11 hs (Entry.ofKVMd m key vLen vOff hVal) = .ok d) ↔ (m = none ∨ m = some {}) := by
  cases m with
  | none => simp [entryDigestV11, Entry.ofKVMd]
  | some k =>
    by_cases hk : k = {}
    · subst hk
      simp [entryDigestV11, Entry.ofKVMd, KVMd.bytes]
    · have hb : k.bytes ≠ [] := fun hnil => hk ((kvmd_bytes_nil_iff k).mp hnil)
      simp [entryDigestV11, Entry.ofKVMd, hb, hk]

/-- An entry accepted by `readEntry` is one its header's digest function accepts. -/
theorem readEntry_digest_ok {hs : HsD D} {v mk : Nat} {s s' : Bytes} {e : Entry D}
    (h : readEntry hs v mk s = .ok (e, s')) (hv : v = 0 ∨ v = 1) :
    digestFunc hs v e = .ok (entryDigest hs v e) :=
  digestFunc_of_ok hs v e hv (readEntry_ok h).md_v0

theorem accepted_eh_checked {hs : HsD D} {r : Record D} (ac : Accepted hs r) :
    ehChecked hs r.hdr.version r.entries = .ok r.hdr.eh := by
  have h := digestsOf_of_ok hs r.hdr.version ac.hdr.ver r.entries (fun h0 e he => (ac.entries e he).md_v0 h0)
  unfold ehChecked
  rw [h, ac.eh]
  rfl

/-! ## Insertion of kv metadata into a version-0 record -/

/-- `readEntry` under a version-0 header on the serialisation of an entry WITH kv metadata: every
length field is consistent, the metadata parses — and the digest function refuses. -/
theorem readEntry_v0_md_refused (hs : HsD D) (lim : Limits) (e : Entry D) (rest : Bytes)
    (wf : Entry.WF 1 lim e) (hmd : e.md ≠ []) :
    readEntry hs 0 lim.maxKeyLen (serializeEntry hs e ++ rest) = .error .mdUnsupported := by
  obtain ⟨⟨k, kwf, hk⟩, -, kmax, kfit, vl, vo⟩ := wf
  obtain ⟨md, key, vLen, vOff, hVal⟩ := e
  simp only at hk kmax kfit vl vo hmd
  have hmdlen : md.length < 65536 := by rw [hk]; have := k.bytes_length; omega
  have hkl : key.length < 65536 := by simpa using kfit
  have hvl : vLen < 4294967296 := by simpa using vl
  have hvo : vOff < 18446744073709551616 := by simpa using vo
  have hkm : ¬ (key.length > lim.maxKeyLen) := by omega
  have hparse := k.parse_bytes kwf
  rw [← hk] at hparse
  simp only [serializeEntry, List.append_assoc, readEntry, Gen.storeSszSize, Gen.storeLszSize,
    Gen.storeOffsetSize]
  rw [readU_append 2 _ _ (by simpa using hmdlen)]
  have hpos : md.length > 0 := List.length_pos_iff.mpr hmd
  have hk' : k.bytes ≠ [] := by rw [← hk]; exact hmd
  simp [readU_append, readN_append, readD_append, hkl, hvl, hvo, hkm, hpos, hparse, ← hk, hk', hmd]

theorem readEntries_v0_md_refused (hs : HsD D) (lim : Limits) (post : List (Entry D)) (e : Entry D)
    (rest : Bytes) (wf : Entry.WF 1 lim e) (hmd : e.md ≠ []) : ∀ (pre : List (Entry D)),
    (∀ x ∈ pre, Entry.WF 0 lim x) →
    readEntries hs 0 lim.maxKeyLen (pre ++ e :: post).length
      (((pre ++ e :: post).map (serializeEntry hs)).flatten ++ rest) = .error .mdUnsupported := by
  intro pre
  induction pre with
  | nil =>
    intro _
    have h1 := readEntry_v0_md_refused hs lim e ((post.map (serializeEntry hs)).flatten ++ rest) wf hmd
    simp [readEntries, List.append_assoc, h1]
  | cons x pre ih =>
    intro wpre
    have h1 := readEntry_serialize hs 0 lim x
      (((pre ++ e :: post).map (serializeEntry hs)).flatten ++ rest) (wpre x (by simp))
    have h2 := ih (fun y hy => wpre y (by simp [hy]))
    simp only [List.cons_append, List.length_cons, List.map_cons, List.flatten_cons, List.append_assoc,
      readEntries]
    rw [h1]
    simp only
    rw [h2]

end EDAux
open EDAux Auth

variable [DecidableEq D]

theorem parseTx_eh_checked_thm (hs : HsD D) (lim : Limits) (bs : Bytes) (r : Record D)
    (h : parseTx hs lim bs = .ok r) : ehChecked hs r.hdr.version r.entries = .ok r.hdr.eh :=
  accepted_eh_checked (parseTx_accepted h)

/-- A well-formed version-0 record whose entry `e` is re-serialised with ANY non-empty kv metadata
(all length fields consistent, stored Alh arbitrary — the original one, or a recomputed one) is
refused with `ErrMetadataUnsupported`, whatever follows the record in the log. -/
theorem v0_md_insertion_rejected_thm (hs : HsD D) (lim : Limits) (r : Record D)
    (pre post : List (Entry D)) (e : Entry D) (k : KVMd) (a : D) (bs rest : Bytes)
    (wf : Record.WF hs lim r) (hv : r.hdr.version = 0) (hes : r.entries = pre ++ e :: post)
    (kwf : k.WF) (hk : k ≠ {})
    (hser : serializeTx hs ⟨r.hdr, pre ++ { e with md := k.bytes } :: post, a⟩ = some bs) :
    parseTx hs lim (bs ++ rest) = .error .mdUnsupported := by
  unfold serializeTx at hser
  cases hh : serializeHeader hs r.hdr with
  | none => simp [hh] at hser
  | some hb =>
    simp only [hh, Option.some.injEq] at hser
    subst hser
    have hwe : ∀ x ∈ r.entries, Entry.WF 0 lim x := by
      intro x hx; have := wf.entries x hx; rwa [hv] at this
    have we := hwe e (by rw [hes]; simp)
    have we' : Entry.WF 1 lim ({ e with md := k.bytes } : Entry D) :=
      { md := ⟨k, kwf, rfl⟩, md_v0 := (fun h => by cases h), key_max := we.key_max, key_fit := we.key_fit,
        vLen_fit := we.vLen_fit, vOff_fit := we.vOff_fit }
    have hmd : ({ e with md := k.bytes } : Entry D).md ≠ [] := by
      simp only
      intro hnil
      exact hk ((kvmd_bytes_nil_iff k).mp hnil)
    have wpre : ∀ x ∈ pre, Entry.WF 0 lim x := fun x hx => hwe x (by rw [hes]; simp [hx])
    have h1 := readHeader_serialize hs lim r hb
      (((pre ++ { e with md := k.bytes } :: post).map (serializeEntry hs)).flatten ++ (hs.enc a ++ rest)) wf hh
    have h2 := readEntries_v0_md_refused hs lim post _ (hs.enc a ++ rest) we' hmd pre wpre
    have hne : r.hdr.nentries = (pre ++ { e with md := k.bytes } :: post).length := by
      rw [wf.ne, hes]; simp
    simp only [parseTx, List.append_assoc]
    rw [h1]
    simp only [hv, hne]
    rw [h2]

end ImmuModel.Tx.Rec
