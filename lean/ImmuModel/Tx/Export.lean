/-
C07 — the exported-transaction wire format (`embedded/store/immustore.go`):

  ExportTx   writes  hdrLen(4) hdr  { kLen(2) key  mdLen(2) kvmd  vLen(4) value|valueDigest }*  tLen(2)=1 flag(1)
  ReplicateTx parses the same framing (the trailer is optional for the parser).

`exportTx` mirrors the writer for a transaction whose values are either all present or all
replaced by their 32-byte digests (the only two forms `ExportTx` produces; the "partially
truncated" exit is a property of the value log, not of the framing).  `parseExported` mirrors the
parsing part of `ReplicateTx` statement by statement.  The Go code walks an absolute index `i`
through `exportedTx` and tests `len(exportedTx) < i + k`; the model walks the not yet consumed
suffix `r = exportedTx[i:]` and tests `r.length < k` (the same predicate, `i ≤ len` being an
invariant of the loop).  Every length field is read behind its own length check (`vLen` after the
kv-metadata and `tLen` got theirs with the repair of the framing, and an empty trailer value is
refused before `v[0]`): the parser has no run-time panic left — `parseExported_never_panics` in
`Tx/Proofs/ExportRT.lean`.  The outcome `XErr.panic` stays in the vocabulary for the code behind the
parser (`precommit`: "missing tx hash calculation method", a panicking `Metadata.Bytes()`).
Header and metadata codecs are C15's models (`HeaderCodec.lean`, `Metadata.lean`).  Core Lean only.
-/
import ImmuModel.Tx.HeaderCodec
namespace ImmuModel.Tx
open ImmuModel ImmuModel.GoInt

/-- Error classes of `ReplicateTx` (parsing and precommit), as distinguished by `errors.Is`. -/
inductive XErr
  | illegal            -- ErrIllegalArguments
  | corrupted          -- ErrCorruptedData
  | newerVersion       -- ErrNewerVersionOrCorruptedData
  | illegalTruncation  -- ErrIllegalTruncationArgument
  | nullKey            -- ErrNullKey
  | maxKeyLen          -- ErrMaxKeyLenExceeded
  | maxValueLen        -- ErrMaxValueLenExceeded
  | maxTxEntries       -- ErrMaxTxEntriesLimitExceeded
  | noEntries          -- ErrNoEntriesProvided
  | mdUnsupported      -- ErrMetadataUnsupported
  | alreadyCommitted   -- ErrTxAlreadyCommitted
  | maxActive          -- ErrMaxActiveTransactionsLimitExceeded
  | wrongOrder         -- ErrUnexpectedError ("attempt to commit a tx in wrong order")
  | blocked            -- the call waits for tx ID-1 (returns only when the context ends)
  | illegalState       -- ErrIllegalState
  | bufferConsumed     -- precommit buffer read past its content (mayCommit after a discard)
  | bufferFull         -- ErrBufferIsFull: the precommit buffer (MaxActiveTransactions slots) is full
  | ahtRange           -- ahtree.ErrUnexistentData: BlTxID beyond the binary-linking tree
  | notFound           -- ErrTxNotFound
  | panic              -- Go run-time panic
  deriving DecidableEq, Repr

def XErr.ofFault : Fault → XErr
  | .corrupted => .corrupted
  | .illegal => .illegal
  | .newerVersion => .newerVersion
  | .mdUnsupported => .mdUnsupported
  | .unsupportedVersion => .newerVersion   -- not produced by `ReadFrom`
  | .panic => .panic

/-- One entry as framed on the wire. `payload` is the value, or (truncated form) its digest. -/
structure PEntry where
  key : Bytes
  md : Option KVMd
  payload : Bytes
  deriving DecidableEq, Repr

/-- An exported transaction: header, entries, and the trailer flag. -/
structure Parsed where
  hdr : TxHdr
  entries : List PEntry
  truncated : Bool
  deriving DecidableEq, Repr

/-- `e.md.Bytes()` guarded by `e.md != nil`. -/
def kvmdBytesOpt : Option KVMd → Bytes
  | none => []
  | some md => kvmdBytes md

/-- The bytes `ExportTx` writes for one entry (`uint16(kLen)`, `uint16(len(md))`, `uint32(vLen)`). -/
def entryBytes (e : PEntry) : Bytes :=
  beN Gen.storeSszSize e.key.length ++ e.key ++
  beN Gen.storeSszSize (kvmdBytesOpt e.md).length ++ kvmdBytesOpt e.md ++
  beN Gen.storeLszSize e.payload.length ++ e.payload

def flagByte (t : Bool) : UInt8 := if t then 1 else 0

/-- The trailer `ExportTx` always writes: `uint16(1)` and the truncation flag. -/
def trailerBytes (t : Bool) : Bytes := beN Gen.storeSszSize 1 ++ [flagByte t]

/-- `ExportTx` (serialisation part). -/
def exportTx (x : Parsed) : Except Fault Bytes :=
  match hdrBytes x.hdr with
  | .error f => .error f
  | .ok hb =>
    .ok (beN Gen.storeLszSize hb.length ++ hb ++ (x.entries.flatMap entryBytes) ++ trailerBytes x.truncated)

/-- The entry loop of `ReplicateTx` on the unconsumed suffix `r`; `n` = entries still expected
(`hdr.NEntries - e`). Returns the entries and the suffix left for the trailer. -/
def parseEntries : Nat → Bytes → Except XErr (List PEntry × Bytes)
  | 0, r => .ok ([], r)
  | n + 1, r =>
    if r.length < 2 * Gen.storeSszSize + Gen.storeLszSize then .error .illegal
    else
      let kLen := beVal (r.take Gen.storeSszSize)
      let r1 := r.drop Gen.storeSszSize
      if r1.length < Gen.storeSszSize + Gen.storeLszSize + kLen then .error .illegal
      else
        let key := r1.take kLen
        let r2 := r1.drop kLen
        let mdLen := beVal (r2.take Gen.storeSszSize)
        let r3 := r2.drop Gen.storeSszSize
        if r3.length < mdLen then .error .illegal
        else
          -- `if mdLen > 0 { md = newReadOnlyKVMetadata(); md.unsafeReadFrom(…); i += mdLen }`
          match (if mdLen > 0 then (match kvmdReadFrom (r3.take mdLen) with
                                    | .error f => Except.error (XErr.ofFault f)
                                    | .ok md => Except.ok (some md))
                 else Except.ok none) with
          | .error e => .error e
          | .ok md =>
            let r4 := r3.drop mdLen
            -- `if len(exportedTx) < i+lszSize { return nil, ErrIllegalArguments }` (the bound checked
            -- before the key did not account for the metadata), then `Uint32(exportedTx[i:])`
            if r4.length < Gen.storeLszSize then .error .illegal
            else
              let vLen := beVal (r4.take Gen.storeLszSize)
              let r5 := r4.drop Gen.storeLszSize
              if r5.length < vLen then .error .illegal
              else
                match parseEntries n (r5.drop vLen) with
                | .error e => .error e
                | .ok (es, rest) => .ok ({ key := key, md := md, payload := r5.take vLen } :: es, rest)

/-- The optional trailer: no bytes left = no trailer (not truncated).
```go
	if i < len(exportedTx) {
		if len(exportedTx) < i+sszSize { return nil, ErrIllegalArguments }
		tLen := int(binary.BigEndian.Uint16(exportedTx[i:])); i += sszSize
		if len(exportedTx) < i+tLen { return nil, ErrIllegalArguments }
		v := exportedTx[i : i+tLen]
		if len(v) == 0 || v[0] > 1 { return nil, ErrIllegalTruncationArgument }
		isTruncated = v[0] == 1; i += tLen
	}
	if i != len(exportedTx) { return nil, ErrIllegalArguments }
``` -/
def parseTrailer (r : Bytes) : Except XErr Bool :=
  if r.length = 0 then .ok false
  else if r.length < Gen.storeSszSize then .error .illegal   -- a single byte after the entries
  else
    let tLen := beVal (r.take Gen.storeSszSize)
    let r1 := r.drop Gen.storeSszSize
    if r1.length < tLen then .error .illegal
    else
      match r1.take tLen with
      | [] => .error .illegalTruncation                        -- `len(v) == 0` (`tLen = 0`)
      | x :: _ =>
        if x.toNat > 1 then .error .illegalTruncation
        else if r1.length ≠ tLen then .error .illegal            -- `i != len(exportedTx)`
        else .ok (x == 1)

/-- The parsing part of `ReplicateTx`. -/
def parseExported (b : Bytes) : Except XErr Parsed :=
  if b.length = 0 then .error .illegal
  else if b.length < Gen.storeLszSize then .error .illegal
  else
    let hdrLen := beVal (b.take Gen.storeLszSize)
    let r := b.drop Gen.storeLszSize
    if r.length < hdrLen then .error .illegal
    else
      match hdrReadFrom (r.take hdrLen) with
      | .error f => .error (XErr.ofFault f)
      | .ok hdr =>
        match parseEntries hdr.nentries.toNat (r.drop hdrLen) with
        | .error e => .error e
        | .ok (es, rest) =>
          match parseTrailer rest with
          | .error e => .error e
          | .ok t => .ok { hdr := hdr, entries := es, truncated := t }

/-- Entries the writer frames faithfully: lengths fit their fields, metadata is what the codec
round-trips, and a present metadata value is not empty (an empty one is written with length 0 and
read back as `nil`; the tx log stores it the same way, so records read from a store satisfy this). -/
def PEntry.wf (e : PEntry) : Bool :=
  decide (e.key.length < 65536) && decide (e.payload.length < 4294967296) &&
  (match e.md with
   | none => true
   | some md => md.wf && decide ((kvmdBytes md).length > 0))

/-- Transactions `ExportTx` can produce: a serialisable header whose `NEntries` is the number of
entries. -/
def Parsed.wf (x : Parsed) : Bool :=
  x.hdr.wf && decide (x.hdr.nentries = (x.entries.length : Int)) && x.entries.all PEntry.wf

end ImmuModel.Tx
