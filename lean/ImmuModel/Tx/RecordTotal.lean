/-
C09 — the integrity-checked tx parser never panics (after the repair of
`extraAttribute.deserialize`: declared `extra` length checked against `maxExtraLen` and the bytes
present), and value reads never panic on an opened store (after the repair of `fetchVLog`).
Core Lean only.
-/
import ImmuModel.Tx.RecordRoundTrip
import ImmuModel.Tx.RecordAuth

namespace ImmuModel.Tx.Rec
open ImmuModel.Merkle
variable {D : Type}

namespace Total

theorem readN_np {n : Nat} {s : Bytes} {e : Err} (h : readN n s = .error e) : e ≠ .panic := by
  unfold readN at h
  split at h
  · cases h; simp
  · cases h

theorem readU_np {w : Nat} {s : Bytes} {e : Err} (h : readU w s = .error e) : e ≠ .panic := by
  unfold readU at h
  split at h
  · rename_i e' he; cases h; exact readN_np he
  · cases h

theorem readD_np {hs : HsD D} {s : Bytes} {e : Err} (h : readD hs s = .error e) : e ≠ .panic := by
  unfold readD at h
  split at h
  · rename_i e' he; cases h; exact readN_np he
  · cases h

theorem kvmdLoop_np (b : Bytes) (m : KVMd) {e : Err} (h : kvmdLoop b m = .error e) : e ≠ .panic := by
  fun_induction kvmdLoop b m with
  | case1 m => cases h
  | case2 c rest m hc ih => exact ih h
  | case3 c rest m hc hc2 hl => cases h; simp
  | case4 c rest m hc hc2 hl ih => exact ih h
  | case5 c rest m hc hc2 hc3 ih => exact ih h
  | case6 c rest m hc hc2 hc3 => cases h; simp

theorem parseKVMd_np {b : Bytes} {e : Err} (h : parseKVMd b = .error e) : e ≠ .panic := by
  unfold parseKVMd at h
  split at h
  · cases h; simp
  · exact kvmdLoop_np _ _ h

theorem txmdLoop_np (b : Bytes) (m : TxMd) {e : Err} (h : txmdLoop b m = .error e) : e ≠ .panic := by
  fun_induction txmdLoop b m with
  | case1 m => cases h
  | case2 c rest m hc hl => cases h; simp
  | case3 c rest m hc hl ih => exact ih h
  | case4 c rest m hc hc2 hl => cases h; simp
  | case5 c rest m hc hc2 hl n body hn => cases h; simp
  | case6 c rest m hc hc2 hl n body hn ih => exact ih h
  | case7 c rest m hc hc2 => cases h; simp

/-- What the loop accepts is within the limits of `WithTruncatedTxID` / `WithExtra`. -/
theorem txmdLoop_wf (b : Bytes) (m m' : TxMd) (h : txmdLoop b m = .ok m') (wf : m.WF) : m'.WF := by
  fun_induction txmdLoop b m with
  | case1 m => cases h; exact wf
  | case2 c rest m hc hl => cases h
  | case3 c rest m hc hl ih =>
    refine ih h ⟨?_, wf.2⟩
    intro t ht
    simp only [Option.some.injEq] at ht
    subst ht
    have := Auth.beVal_lt (rest.take Gen.storeTxIDSize)
    have hl2 : (rest.take Gen.storeTxIDSize).length ≤ 8 := by simp [Gen.storeTxIDSize]; omega
    have : 256 ^ (rest.take Gen.storeTxIDSize).length ≤ 256 ^ 8 := Nat.pow_le_pow_right (by decide) hl2
    have h8 : (256 : Nat) ^ 8 = 2 ^ 64 := by decide
    omega
  | case4 c rest m hc hc2 hl => cases h
  | case5 c rest m hc hc2 hl n body hn => cases h
  | case6 c rest m hc hc2 hl n body hn ih =>
    refine ih h ⟨wf.1, ?_⟩
    intro x hx
    simp only [Option.some.injEq] at hx
    subst hx
    simp only [List.length_take]
    omega
  | case7 c rest m hc hc2 => cases h

theorem parseTxMd_np {b : Bytes} {e : Err} (h : parseTxMd b = .error e) : e ≠ .panic := by
  unfold parseTxMd at h
  split at h
  · cases h; simp
  · exact txmdLoop_np _ _ h

theorem parseTxMd_wf {b : Bytes} {m : TxMd} (h : parseTxMd b = .ok m) : m.WF := by
  unfold parseTxMd at h
  split at h
  · cases h
  · exact txmdLoop_wf _ _ _ h ⟨(by intro t ht; cases ht), (by intro x hx; cases hx)⟩

theorem txmdExtraLen_nil : txmdExtraLen [] = 0 := rfl

/-- `readHeader` never panics and the canonical metadata bytes of an accepted header carry an
`extra` attribute of at most `maxExtraLen` bytes. -/
theorem readHeader_total (hs : HsD D) (me : Nat) (s : Bytes) :
    (∀ e, readHeader hs me s = .error e → e ≠ .panic) ∧
    (∀ h s', readHeader hs me s = .ok (h, s') → txmdExtraLen h.md ≤ Gen.storeMaxExtraLen) := by
  unfold readHeader
  split
  · rename_i e he; exact ⟨fun e' h => by cases h; exact readU_np he, fun _ _ h => by cases h⟩
  split
  · exact ⟨fun e' h => by cases h; simp, fun _ _ h => by cases h⟩
  split
  · rename_i e he; exact ⟨fun e' h => by cases h; exact readU_np he, fun _ _ h => by cases h⟩
  split
  · rename_i e he; exact ⟨fun e' h => by cases h; exact readU_np he, fun _ _ h => by cases h⟩
  split
  · rename_i e he; exact ⟨fun e' h => by cases h; exact readD_np he, fun _ _ h => by cases h⟩
  split
  · rename_i e he; exact ⟨fun e' h => by cases h; exact readD_np he, fun _ _ h => by cases h⟩
  split
  · rename_i e he; exact ⟨fun e' h => by cases h; exact readU_np he, fun _ _ h => by cases h⟩
  split
  · -- version 0
    split
    · rename_i e he; exact ⟨fun e' h => by cases h; exact readU_np he, fun _ _ h => by cases h⟩
    split
    · exact ⟨fun e' h => by cases h; simp, fun _ _ h => by cases h⟩
    · refine ⟨fun e' h => (by cases h), fun h s' hh => ?_⟩
      cases hh
      simp [txmdExtraLen_nil]
  · split
    · -- version 1
      split
      · rename_i e he; exact ⟨fun e' h => by cases h; exact readU_np he, fun _ _ h => by cases h⟩
      split
      · exact ⟨fun e' h => by cases h; simp, fun _ _ h => by cases h⟩
      split
      · rename_i e hmd
        refine ⟨fun e' h => ?_, fun _ _ h => by cases h⟩
        cases h
        split at hmd
        · split at hmd
          · rename_i e2 he2; cases hmd; exact readN_np he2
          split at hmd
          · rename_i e2 he2; cases hmd; exact parseTxMd_np he2
          · cases hmd
        · cases hmd
      rename_i md s8 hmd
      have hmdl : txmdExtraLen md ≤ Gen.storeMaxExtraLen := by
        split at hmd
        · split at hmd
          · cases hmd
          split at hmd
          · cases hmd
          rename_i m hm
          simp only [Except.ok.injEq, Prod.mk.injEq] at hmd
          rw [← hmd.1]
          exact txmdExtraLen_bytes m (parseTxMd_wf hm)
        · simp only [Except.ok.injEq, Prod.mk.injEq] at hmd
          rw [← hmd.1]; simp [txmdExtraLen_nil]
      split
      · rename_i e he; exact ⟨fun e' h => by cases h; exact readU_np he, fun _ _ h => by cases h⟩
      split
      · exact ⟨fun e' h => by cases h; simp, fun _ _ h => by cases h⟩
      · refine ⟨fun e' h => (by cases h), fun h s' hh => ?_⟩
        cases hh
        exact hmdl
    · exact ⟨fun e' h => by cases h; simp, fun _ _ h => by cases h⟩

theorem readEntry_np (hs : HsD D) (v mk : Nat) (s : Bytes) {e : Err}
    (h : readEntry hs v mk s = .error e) : e ≠ .panic := by
  unfold readEntry at h
  split at h
  · rename_i e' he; cases h; exact readU_np he
  split at h
  · rename_i e' hmd
    cases h
    split at hmd
    · split at hmd
      · rename_i e2 he2; cases hmd; exact readN_np he2
      split at hmd
      · rename_i e2 he2; cases hmd; exact parseKVMd_np he2
      · cases hmd
    · cases hmd
  split at h
  · rename_i e' he; cases h; exact readU_np he
  split at h
  · cases h; simp
  split at h
  · rename_i e' he; cases h; exact readN_np he
  split at h
  · rename_i e' he; cases h; exact readU_np he
  split at h
  · rename_i e' he; cases h; exact readU_np he
  split at h
  · rename_i e' he; cases h; exact readD_np he
  split at h
  · cases h; simp
  · cases h

theorem readEntries_np (hs : HsD D) (v mk : Nat) : ∀ (n : Nat) (s : Bytes) {e : Err},
    readEntries hs v mk n s = .error e → e ≠ .panic
  | 0, s, e, h => by simp [readEntries] at h
  | n+1, s, e, h => by
    unfold readEntries at h
    split at h
    · rename_i e' he; cases h; exact readEntry_np hs v mk s he
    split at h
    · rename_i e' he; cases h; exact readEntries_np hs v mk n _ he
    · cases h

end Total

/-- **The integrity-checked tx parser never panics**: every byte stream (a record with flipped
bits, a truncated log, the bytes of following records) is parsed into a record or answered with an
error. -/
theorem parseTx_noPanic_thm [DecidableEq D] (hs : HsD D) (lim : Limits) (s : Bytes) :
    parseTx hs lim s ≠ .error .panic := by
  intro hc
  unfold parseTx at hc
  have hH := Total.readHeader_total hs lim.maxEntries s
  split at hc
  · rename_i e he; cases hc; exact hH.1 _ he rfl
  rename_i h s1 hh
  have hok := Auth.readHeader_ok hh
  have hmd := hH.2 h s1 hh
  split at hc
  · rename_i e he; cases hc; exact Total.readEntries_np hs _ _ _ _ he rfl
  split at hc
  · rename_i e he; cases hc; exact Total.readD_np he rfl
  simp only [] at hc
  rw [if_neg (by omega)] at hc
  split at hc
  · rename_i ha
    -- innerHash is defined for versions 0 and 1
    simp only [alh, innerHash, innerBytes, Option.map_eq_none_iff] at ha
    rcases hok.ver with hv | hv
    · simp [hv] at ha
    · simp [hv] at ha
  · split at hc <;> cases hc

/-- **Value reads never panic on an opened store** (`s.vLogs` holds `MaxIOConcurrency ≥ 1` value
logs): a vlog id outside `1..MaxIOConcurrency` is answered with `ErrUnexpectedError`. -/
theorem readValue_noPanic_thm (hs : Hs D) [DecidableEq D] (cfg : VCfg) (vlogs : List Bytes) (txLog : Bytes)
    (e : Entry D) (hlogs : cfg.embedded = false → 0 < vlogs.length) :
    readValue hs cfg vlogs txLog e ≠ .error .panic := by
  intro hc
  unfold readValue at hc
  split at hc
  · cases hc
  split at hc
  · cases hc
  simp only [] at hc
  split at hc
  · cases hc
  split at hc
  · rename_i err hf
    cases hc
    unfold fetchVLog at hf
    split at hf
    · split at hf <;> cases hf
    · rename_i hemb
      have hpos := hlogs (by simpa using hemb)
      split at hf
      · split at hf
        · cases hf
        · split at hf
          · cases hf
          · rename_i hnone
            rw [List.getElem?_eq_none_iff] at hnone
            omega
      · split at hf
        · cases hf
        · rename_i hid
          split at hf
          · cases hf
          · rename_i hnone
            rw [List.getElem?_eq_none_iff] at hnone
            omega
  · split at hc
    · cases hc
    · split at hc
      · split at hc <;> cases hc
      · cases hc

end ImmuModel.Tx.Rec
