/-
C15 — models of `TxMetadata.Bytes/ReadFrom` (`embedded/store/tx_metadata.go`) and
`KVMetadata.Bytes/unsafeReadFrom` (`embedded/store/kv_metadata.go`).

Go slice semantics are explicit: `Fault.panic` is the outcome of a run-time panic
(out-of-range slice expression, slicing beyond the capacity of a fixed array).  Since the length
guard in `extraAttribute.deserialize` (`n > maxExtraLen || len(b) < sszSize+n`) no decoder
reaches one; `extraSerialize` keeps it for values built outside the API limits.
The attribute maps are represented by their (finitely many) possible entries.
Core Lean only.
-/
import ImmuModel.Base.Bytes
import ImmuModel.Base.GoInt
import ImmuModel.Gen.Consts
import ImmuModel.Gen.C15
namespace ImmuModel.Tx
open ImmuModel ImmuModel.GoInt

inductive Fault
  | corrupted          -- ErrCorruptedData
  | illegal            -- ErrIllegalArguments
  | newerVersion       -- ErrNewerVersionOrCorruptedData
  | mdUnsupported      -- ErrMetadataUnsupported
  | unsupportedVersion -- ErrUnsupportedTxHeaderVersion
  | panic              -- Go run-time panic
  deriving DecidableEq, Repr

def codeU8 (n : Nat) : UInt8 := UInt8.ofNat n

-- ---------------------------------------------------------------- TxMetadata

/-- `TxMetadata.attributes`: `truncatedUptoTxAttribute{txID}` and/or `extraAttribute{extra}`. -/
structure TxMd where
  trunc : Option Nat := none      -- uint64
  extra : Option Bytes := none
  deriving DecidableEq, Repr

def TxMd.isEmpty (md : TxMd) : Bool := md.trunc.isNone && md.extra.isNone

/-- `extraAttribute.serialize`: `var b [sszSize+maxExtraLen]byte; …; return b[:sszSize+len(extra)]`
panics when `len(extra) > maxExtraLen`. -/
def extraSerialize (e : Bytes) : Except Fault Bytes :=
  if e.length > Gen.storeMaxExtraLen then .error .panic
  else .ok (beN Gen.storeSszSize e.length ++ e)

/-- `TxMetadata.Bytes()`: attributes in the fixed order truncatedUptoTx, extra. -/
def txmdBytes (md : TxMd) : Except Fault Bytes :=
  let t : Bytes := match md.trunc with
    | none => []
    | some id => codeU8 Gen.storeTruncatedUptoTxAttrCode :: beN Gen.storeTxIDSize id
  match md.extra with
  | none => .ok t
  | some e =>
    match extraSerialize e with
    | .error f => .error f
    | .ok bs => .ok (t ++ codeU8 Gen.storeExtraAttrCode :: bs)

/-- The attribute loop of `TxMetadata.ReadFrom` on the not yet consumed suffix `rem = b[i:]`.
`fuel` only makes the recursion structural (every round consumes at least the code byte). -/
def txmdLoop : Nat → Bytes → TxMd → Except Fault TxMd
  | _, [], md => .ok md
  | 0, _ :: _, _ => .error .panic   -- not reachable with fuel = len(b)
  | fuel + 1, code :: r, md =>
    if code = codeU8 Gen.storeTruncatedUptoTxAttrCode then
      if r.length < Gen.storeTxIDSize then .error .corrupted
      else txmdLoop fuel (r.drop Gen.storeTxIDSize) { md with trunc := some (beVal (r.take Gen.storeTxIDSize)) }
    else if code = codeU8 Gen.storeExtraAttrCode then
      if r.length < Gen.storeSszSize then .error .corrupted
      else
        let l := beVal (r.take Gen.storeSszSize)
        let body := r.drop Gen.storeSszSize
        -- `if n > maxExtraLen || len(b) < sszSize+n { return 0, ErrCorruptedData }`, then
        -- `a.extra = make([]byte, n); copy(a.extra, b[sszSize:])`; the caller does `i += 2+n`
        if l > Gen.storeMaxExtraLen ∨ l > body.length then .error .corrupted
        else txmdLoop fuel (body.drop l) { md with extra := some (body.take l) }
    else .error .corrupted

/-- `TxMetadata.ReadFrom(b)` on a fresh `NewTxMetadata()`. -/
def txmdReadFrom (b : Bytes) : Except Fault TxMd :=
  if b.length > Gen.storeMaxTxMetadataLen then .error .corrupted
  else txmdLoop b.length b {}

/-- Metadata the API can build (`WithTruncatedTxID`, `WithExtra`): ids are uint64, extra is
non-empty… or empty-but-present (only via `ReadFrom`) and at most `maxExtraLen` bytes. -/
def TxMd.wf (md : TxMd) : Bool :=
  (match md.trunc with | none => true | some id => decide (id < two64)) &&
  (match md.extra with | none => true | some e => decide (e.length ≤ Gen.storeMaxExtraLen))

-- ---------------------------------------------------------------- KVMetadata

/-- `KVMetadata.attributes`: deleted, expiresAt (`time.Time`, only `Unix()` seconds are
serialised), nonIndexable. -/
structure KVMd where
  deleted : Bool := false
  expiresAt : Option Int := none    -- t.Unix(), int64
  nonIndexable : Bool := false
  deriving DecidableEq, Repr

/-- `KVMetadata.Bytes()`. -/
def kvmdBytes (md : KVMd) : Bytes :=
  (if md.deleted then [codeU8 Gen.storeDeletedAttrCode] else []) ++
  (match md.expiresAt with
    | none => []
    | some t => codeU8 Gen.storeExpiresAtAttrCode :: beN Gen.storeTsSize (u64 t)) ++
  (if md.nonIndexable then [codeU8 Gen.storeNonIndexableAttrCode] else [])

def kvmdLoop : Nat → Bytes → KVMd → Except Fault KVMd
  | _, [], md => .ok md
  | 0, _ :: _, _ => .error .panic   -- not reachable with fuel = len(b)
  | fuel + 1, code :: r, md =>
    if code = codeU8 Gen.storeDeletedAttrCode then kvmdLoop fuel r { md with deleted := true }
    else if code = codeU8 Gen.storeExpiresAtAttrCode then
      if r.length < Gen.storeTsSize then .error .corrupted
      else kvmdLoop fuel (r.drop Gen.storeTsSize) { md with expiresAt := some (i64 (beVal (r.take Gen.storeTsSize))) }
    else if code = codeU8 Gen.storeNonIndexableAttrCode then kvmdLoop fuel r { md with nonIndexable := true }
    else .error .corrupted

/-- `KVMetadata.unsafeReadFrom(b)` on a fresh metadata value. -/
def kvmdReadFrom (b : Bytes) : Except Fault KVMd :=
  if b.length > Gen.storeMaxKVMetadataLen then .error .corrupted
  else kvmdLoop b.length b {}

def KVMd.wf (md : KVMd) : Bool :=
  match md.expiresAt with | none => true | some t => decide (InI64 t)

end ImmuModel.Tx
