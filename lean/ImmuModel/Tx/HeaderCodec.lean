/-
C15 — model of `TxHeader.Bytes` / `TxHeader.ReadFrom` (`embedded/store/tx.go`), byte layout

  ID(8) PrevAlh(32) Ts(8) Version(2)  { v0: NEntries(2) | v1: MDLen(2) MD NEntries(4) }  Eh(32) BlTxID(8) BlRoot(32)

with Go slice/`copy` semantics made explicit (`Fault.panic`; `copy` into a `[32]byte` copies
what is there and leaves zeros).  Hashing of headers (Alh, innerHash) is C01's model, not here.
Core Lean only.
-/
import ImmuModel.Tx.Metadata
namespace ImmuModel.Tx
open ImmuModel ImmuModel.GoInt

structure TxHdr where
  id : Nat := 0            -- uint64
  ts : Int := 0            -- int64
  blTxID : Nat := 0        -- uint64
  blRoot : Bytes := List.replicate 32 0
  prevAlh : Bytes := List.replicate 32 0
  version : Int := 0       -- int
  md : Option TxMd := none -- *TxMetadata (nil = none)
  nentries : Int := 0      -- int
  eh : Bytes := List.replicate 32 0
  deriving DecidableEq, Repr

def hashSize : Nat := 32

/-- `uint16(x)` / `uint32(x)` of a Go `int`. -/
def lowBits (w : Nat) (x : Int) : Nat := (x % ((256 ^ w : Nat) : Int)).toNat

/-- `hdr.Metadata.Bytes()` guarded by `hdr.Metadata != nil` (nil contributes no bytes). -/
def mdBytesOpt : Option TxMd → Except Fault Bytes
  | none => .ok []
  | some md => txmdBytes md

/-- `TxHeader.Bytes()`. -/
def hdrBytes (h : TxHdr) : Except Fault Bytes :=
  let pre := beN Gen.storeTxIDSize h.id ++ h.prevAlh ++ beN Gen.storeTsSize (u64 h.ts) ++
    beN Gen.storeSszSize (lowBits 2 h.version)
  let post := h.eh ++ beN Gen.storeTxIDSize h.blTxID ++ h.blRoot
  if h.version = 0 then
    -- `if hdr.Metadata != nil && len(hdr.Metadata.Bytes()) > 0 { return ErrMetadataUnsupported }`
    match mdBytesOpt h.md with
    | .error f => .error f
    | .ok mdbs =>
      if mdbs.length > 0 then .error .mdUnsupported
      else .ok (pre ++ beN Gen.storeSszSize (lowBits 2 h.nentries) ++ post)
  else if h.version = 1 then
    match mdBytesOpt h.md with
    | .error f => .error f
    | .ok mdbs =>
      .ok (pre ++ beN Gen.storeSszSize mdbs.length ++ mdbs ++ beN Gen.storeLszSize (lowBits 4 h.nentries) ++ post)
  else .error .unsupportedVersion

/-- `b[i:]` -/
def sliceFrom (b : Bytes) (i : Nat) : Except Fault Bytes :=
  if i > b.length then .error .panic else .ok (b.drop i)

/-- `copy(dst[:], src)` into a zeroed `[32]byte`. -/
def copy32 (src : Bytes) : Bytes :=
  src.take hashSize ++ List.replicate (hashSize - (src.take hashSize).length) 0

/-- `binary.BigEndian.Uint64(src)`: panics (index out of range) on fewer than 8 bytes. -/
def u64At (src : Bytes) : Except Fault Nat :=
  if src.length < 8 then .error .panic else .ok (beVal (src.take 8))

/-- Version-specific middle part of `ReadFrom`, starting at offset 50 (after ID, PrevAlh, Ts,
Version): returns (metadata, NEntries, next offset). -/
def readMid (b : Bytes) (version : Nat) : Except Fault (Option TxMd × Nat × Nat) :=
  let i := 50
  if version = 0 then .ok (none, beVal ((b.drop i).take 2), i + 2)
  else if version = 1 then
    let mdLen := beVal ((b.drop i).take 2)
    let i := i + 2
    if b.length < i + mdLen + Gen.storeLszSize ∨ mdLen > Gen.storeMaxTxMetadataLen then .error .corrupted
    else if mdLen > 0 then
      match txmdReadFrom ((b.drop i).take mdLen) with
      | .error f => .error f
      | .ok md => .ok (some md, beVal ((b.drop (i + mdLen)).take 4), i + mdLen + 4)
    else .ok (none, beVal ((b.drop i).take 4), i + 4)
  else .error .newerVersion

/-- The records common to versions 0 and 1, read from offset `i`: Eh, BlTxID (checked against
the already decoded `id`), BlRoot, after
`if len(b) < i+sha256.Size+txIDSize+sha256.Size { return ErrCorruptedData }`.
`copy` never panics but `b[i:]` and `Uint64` do (not reachable behind the length check). -/
def readTail (b : Bytes) (i : Nat) (id : Nat) : Except Fault (Bytes × Nat × Bytes) :=
  if b.length < i + hashSize + Gen.storeTxIDSize + hashSize then .error .corrupted else
  match sliceFrom b i with
  | .error f => .error f
  | .ok s1 =>
    let eh := copy32 s1
    match sliceFrom b (i + hashSize) with
    | .error f => .error f
    | .ok s2 =>
      match u64At s2 with
      | .error f => .error f
      | .ok blTxID =>
        if blTxID ≥ id then .error .illegal
        else
          match sliceFrom b (i + hashSize + 8) with
          | .error f => .error f
          | .ok s3 => .ok (eh, blTxID, copy32 s3)

/-- `TxHeader.ReadFrom(b)` on a zero `TxHeader`. -/
def hdrReadFrom (b : Bytes) : Except Fault TxHdr :=
  let minLen := Gen.storeTxIDSize + hashSize + Gen.storeTsSize + 2 * Gen.storeSszSize + hashSize +
    Gen.storeTxIDSize + hashSize
  if b.length < minLen then .error .illegal
  else
    let id := beVal (b.take 8)
    if id < 1 then .error .illegal
    else
      let prevAlh := (b.drop 8).take 32
      let ts := i64 (beVal ((b.drop 40).take 8))
      let version := beVal ((b.drop 48).take 2)
      match readMid b version with
      | .error f => .error f
      | .ok (md, nentries, i) =>
        if nentries < 1 then .error .illegal
        else
          match readTail b i id with
          | .error f => .error f
          | .ok (eh, blTxID, blRoot) =>
            .ok { id := id, ts := ts, blTxID := blTxID, blRoot := blRoot, prevAlh := prevAlh,
                  version := (version : Int), md := md, nentries := (nentries : Int), eh := eh }

/-- Headers that `Bytes` serialises faithfully: the fields are in their Go ranges, the three
digests have 32 bytes, the version is 0 or 1 (`MaxTxHeaderVersion`), `NEntries` fits the
field of that version, version 0 carries no metadata, and `ReadFrom`'s own sanity rules hold
(`ID ≥ 1`, `BlTxID < ID`, `NEntries ≥ 1`). -/
def TxHdr.wf (h : TxHdr) : Bool :=
  decide (1 ≤ h.id) && decide (h.id < two64) && decide (InI64 h.ts) && decide (h.blTxID < h.id) &&
  decide (h.blRoot.length = 32) && decide (h.prevAlh.length = 32) && decide (h.eh.length = 32) &&
  decide (1 ≤ h.nentries) &&
  (match h.md with | none => true | some md => md.wf) &&
  ((decide (h.version = 0) && decide (h.nentries < 65536) &&
      (match h.md with | none => true | some md => md.isEmpty)) ||
   (decide (h.version = 1) && decide (h.nentries < 4294967296)))

/-- What `ReadFrom` reconstructs: empty metadata is read back as `nil`. -/
def TxHdr.norm (h : TxHdr) : TxHdr :=
  { h with md := match h.md with
      | none => none
      | some md => if md.isEmpty then none else some md }

end ImmuModel.Tx
