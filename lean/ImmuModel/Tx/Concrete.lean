/-
Concrete digest type and hash for the executable driver: 32-byte strings and the Lean
SHA-256 (validated against crypto/sha256 every run).  `fit32` pads/truncates to 32 bytes
so that `enc_len` holds by construction; on the real SHA output it is the identity.
-/
import ImmuModel.Tx.Hs
import ImmuModel.Base.Sha256

namespace ImmuModel

def fit32 (b : Bytes) : Bytes := (b ++ List.replicate 32 (0 : UInt8)).take 32

theorem fit32_length (b : Bytes) : (fit32 b).length = 32 := by
  simp [fit32, List.length_take]

abbrev Digest := { b : Bytes // b.length = 32 }

def Digest.ofBytes (b : Bytes) : Digest := ⟨fit32 b, fit32_length b⟩

instance : Inhabited Digest := ⟨Digest.ofBytes []⟩

def shaHs : Hs Digest where
  H b := Digest.ofBytes (Sha256.sum b)
  enc d := d.val
  enc_len d := d.property
  enc_inj a b h := Subtype.ext h

end ImmuModel
