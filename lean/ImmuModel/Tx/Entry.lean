/-
Entry digests (verification.go EntrySpecDigest_v0 / _v1).
-/
import ImmuModel.Tx.Hs
namespace ImmuModel.Tx
variable {D : Type}

/-- v0: H(key ‖ H(value)). -/
def entryDigestV0 (hs : Hs D) (key : Bytes) (hvalue : D) : D := hs.H (key ++ hs.enc hvalue)

/-- v1: H(be16 |md| ‖ md ‖ be16 |key| ‖ key ‖ hvalue); lengths are truncated to uint16 as in Go. -/
def entryDigestV1 (hs : Hs D) (md key : Bytes) (hvalue : D) : D :=
  hs.H (beN Gen.storeSszSize md.length ++ md ++ beN Gen.storeSszSize key.length ++ key ++ hs.enc hvalue)

end ImmuModel.Tx
