/-
Concrete `HsD` instances over 32-byte digests: the Lean SHA-256 (executable driver) and a
constant toy hash (only to show that the hypotheses of the C09 theorems are satisfiable).
-/
import ImmuModel.Tx.Concrete
import ImmuModel.Tx.Record

namespace ImmuModel.Tx.Rec

theorem fit32_id (d : Digest) : fit32 d.val = d.val := by
  have h := d.property
  simp [fit32, h]

/-- SHA-256 with the decoder of 32-byte digests. -/
def shaHsD : HsD Digest where
  toHs := shaHs
  dec b := Digest.ofBytes b
  dec_enc d := Subtype.ext (fit32_id d)

/-- A constant "hash" (everything collides): non-vacuity examples only. -/
def constHsD : HsD Digest where
  H _ := Digest.ofBytes []
  enc d := d.val
  enc_len d := d.property
  enc_inj _ _ h := Subtype.ext h
  dec b := Digest.ofBytes b
  dec_enc d := Subtype.ext (fit32_id d)

end ImmuModel.Tx.Rec
