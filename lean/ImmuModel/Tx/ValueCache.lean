/-
C09 — value reads THROUGH THE VALUE-LOG CACHE (`ImmuStore.vLogCache`, option `VLogCacheSize`,
off by default) and with the `skipIntegrityCheck` flag, as `readValueAt` is written:

  1. `!embeddedValues && vLogID == 0 && len(b) > 0`            ⇒ `io.EOF`
  2. `len(b) > 0`: cache lookup BY THE ENCODED OFFSET ALONE; hit ⇒ `copy(b, bval); n = len(bval)`
     (the cached slice may be shorter or longer than `b`); miss ⇒ `vLog.ReadAt(b, offset)`, an
     error returns at once, otherwise a COPY of `b[:n]` is `Put` into the cache BEFORE any validation
     (also when the caller is lenient, also when the validation then fails);
  3. `!skipIntegrityCheck && (len(b) != n || hvalue != sha256(b[:n]))` ⇒ `ErrCorruptedData`,
     evaluated for cache hits and misses alike.

The cache is an explicit state: an association list (newest first) of what `Put` stored.
`TruncateUptoTx` removes the values it made unreadable (`VCache.evictUpto`; before that repair the cache
kept serving them).  Capacity and the replacement policy are NOT modelled; the authenticity theorems quantify over EVERY cache
content (so over every eviction policy, and over contents written by lenient callers).
Core Lean only.
-/
import ImmuModel.Tx.Record

namespace ImmuModel.Tx.Rec

variable {D : Type}

/-- `vLogCache` content: `(encoded vOff, bytes)` pairs, newest first. -/
abbrev VCache := List (Nat × Bytes)

/-- `vLogCache.Get(off)`. -/
def VCache.get (c : VCache) (off : Nat) : Option Bytes := List.lookup off c

/-- `vLogCache.Put(off, cb)`. -/
def VCache.put (c : VCache) (off : Nat) (v : Bytes) : VCache := (off, v) :: c

/-- `evictCachedValuesUpto(vLogID, offset)`, called by `TruncateUptoTx` right after
`vlog.DiscardUpto(offset)` while that value log is still held (so no reader can `Put` back a value it
read before the discard: `readValueAt` holds the log from `ReadAt` to `Put`): every cached value of that
log stored before the offset is removed.  Keys are encoded offsets, decoded as in `diskRead` (log id in
bits 56..63, position in the low 55 bits: Go `decodeOffset`). -/
def VCache.evictUpto (c : VCache) (vlog upto : Nat) : VCache :=
  c.filter (fun p => !(p.1 / 2 ^ 56 % 256 == vlog && decide (p.1 % 2 ^ 55 < upto)))

/-- Go `copy(b, bval)`: `min(len b, len bval)` bytes are overwritten, `b` keeps its length. -/
def copyInto (b bval : Bytes) : Bytes := bval.take b.length ++ b.drop bval.length

/-- `fetchVLog(vLogID)` + `vLog.ReadAt(b, offset)` with `len(b) = n` on a logical log: all `n`
bytes or an error (the same steps as in `readValue`). -/
def diskRead (cfg : VCfg) (vlogs : List Bytes) (txLog : Bytes) (vOff n : Nat) : Except Err Bytes :=
  match fetchVLog cfg vlogs txLog (vOff / 2 ^ 56 % 256) with
  | .error err => .error err
  | .ok log =>
    if vOff / 2 ^ 63 % 2 = 1 then .error .eof
    else if vOff % 2 ^ 55 + n ≤ log.length then .ok ((log.drop (vOff % 2 ^ 55)).take n)
    else .error .eof

/-- The final validation of `readValueAt`: `true` = passes. -/
def passes (hs : Hs D) [DecidableEq D] (skip : Bool) (b : Bytes) (n : Nat) (hVal : D) : Bool :=
  skip || (b.length == n && decide (hs.H (b.take n) = hVal))

/-- `readValueAt(b, off, hvalue, skipIntegrityCheck)`; `cache = none` ⇔ `s.vLogCache == nil`.
Returns the cache afterwards and the buffer content (or the error). -/
def readValueAtC (hs : Hs D) [DecidableEq D] (cfg : VCfg) (vlogs : List Bytes) (txLog : Bytes)
    (cache : Option VCache) (b : Bytes) (vOff : Nat) (hVal : D) (skip : Bool) :
    Option VCache × Except Err Bytes :=
  if !cfg.embedded ∧ vOff / 2 ^ 56 % 256 = 0 ∧ b.length > 0 then (cache, .error .eof)
  else if b.length = 0 then
    (cache, if passes hs skip b 0 hVal then .ok b else .error .corruptedData)
  else match cache.bind (·.get vOff) with
    | some bval =>
      (cache, if passes hs skip (copyInto b bval) bval.length hVal then .ok (copyInto b bval)
              else .error .corruptedData)
    | none =>
      match diskRead cfg vlogs txLog vOff b.length with
      | .error err => (cache, .error err)
      | .ok v =>
        (cache.map (·.put vOff v),
         if passes hs skip v b.length hVal then .ok v else .error .corruptedData)

/-- `ReadValue(entry)` (always integrity-checked) through the cache; the buffer is a fresh
`make([]byte, vLen)`. -/
def readValueC (hs : Hs D) [DecidableEq D] (cfg : VCfg) (vlogs : List Bytes) (txLog : Bytes)
    (cache : Option VCache) (e : Entry D) : Option VCache × Except Err Bytes :=
  if e.vLen = 0 then (cache, .ok [])
  else if e.vLen > cfg.maxValueLen then (cache, .error .corruptedData)
  else readValueAtC hs cfg vlogs txLog cache (List.replicate e.vLen 0) e.vOff e.hVal false

/-- The value read of one entry inside `ExportTx(…, skipIntegrityCheck, …)`: `validateValueLen`,
then `readValueAt` into `buf` = `s._valBs[:vLen]` (stale content of earlier exports) or a fresh
buffer: any `buf` the caller supplies. -/
def exportReadC (hs : Hs D) [DecidableEq D] (cfg : VCfg) (vlogs : List Bytes) (txLog : Bytes)
    (cache : Option VCache) (buf : Bytes) (e : Entry D) (skip : Bool) :
    Option VCache × Except Err Bytes :=
  if e.vLen > cfg.maxValueLen then (cache, .error .corruptedData)
  else readValueAtC hs cfg vlogs txLog cache buf e.vOff e.hVal skip

/-- One value access of a read sequence. -/
inductive VRead (D : Type)
  | readValue (e : Entry D)                                -- ReadValue / valueRef.Resolve / indexer
  | exportRead (e : Entry D) (buf : Bytes) (skip : Bool)   -- ExportTx, lenient or checked

def VRead.run (hs : Hs D) [DecidableEq D] (cfg : VCfg) (vlogs : List Bytes) (txLog : Bytes)
    (cache : Option VCache) : VRead D → Option VCache × Except Err Bytes
  | .readValue e => readValueC hs cfg vlogs txLog cache e
  | .exportRead e buf skip => exportReadC hs cfg vlogs txLog cache buf e skip

/-- A sequence of value accesses on one store instance: the answers, in order. -/
def runReads (hs : Hs D) [DecidableEq D] (cfg : VCfg) (vlogs : List Bytes) (txLog : Bytes) :
    Option VCache → List (VRead D) → List (Except Err Bytes)
  | _, [] => []
  | c, op :: ops =>
    let r := op.run hs cfg vlogs txLog c
    r.2 :: runReads hs cfg vlogs txLog r.1 ops

/-- Every cached slice is what a read of its offset with its length finds on the logs NOW (the
state a cache is in when the logs did not change since the store was opened). -/
def VCache.Coherent (cfg : VCfg) (vlogs : List Bytes) (txLog : Bytes) (c : VCache) : Prop :=
  ∀ off bs, (off, bs) ∈ c → diskRead cfg vlogs txLog off bs.length = .ok bs

end ImmuModel.Tx.Rec
