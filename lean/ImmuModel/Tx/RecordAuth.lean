/-
C09 — proofs about `Tx/Record.lean`: what acceptance implies, and the Alh binds the covered content (or a collision).  Core Lean only (no Mathlib needed so far).
-/
import ImmuModel.Tx.RecordSpec
import ImmuModel.Merkle.MthLemmas
import ImmuModel.Merkle.Proofs.Roots
import ImmuModel.Merkle.Proofs.InclSound

namespace ImmuModel.Tx.Rec
open ImmuModel.Merkle
variable {D : Type}

/- Helper lemmas live in `ImmuModel.Tx.Auth` (no clashes with the sibling proof files). -/
namespace Auth

/-! ## 1. Inversion of the parser -/

theorem beVal_lt (b : Bytes) : beVal b < 256 ^ b.length := by
  induction b with
  | nil => simp [beVal]
  | cons x xs ih =>
    simp only [beVal, List.length_cons, Nat.pow_succ]
    have hx : x.toNat < 256 := x.toNat_lt
    have h1 : x.toNat * 256 ^ xs.length ≤ 255 * 256 ^ xs.length :=
      Nat.mul_le_mul_right _ (by omega)
    generalize 256 ^ xs.length = P at *
    omega

theorem readN_ok {n : Nat} {s b s' : Bytes} (h : readN n s = .ok (b, s')) :
    n ≤ s.length ∧ b = s.take n ∧ s' = s.drop n := by
  unfold readN at h
  split at h
  · cases h
  · simp only [Except.ok.injEq, Prod.mk.injEq] at h
    exact ⟨by omega, h.1.symm, h.2.symm⟩

theorem readN_len {n : Nat} {s b s' : Bytes} (h : readN n s = .ok (b, s')) : b.length = n := by
  obtain ⟨h1, h2, _⟩ := readN_ok h
  subst h2; simp; omega

theorem readU_lt {w : Nat} {s s' : Bytes} {n : Nat} (h : readU w s = .ok (n, s')) : n < 256 ^ w := by
  unfold readU at h
  split at h
  · cases h
  · rename_i b s1 heq
    simp only [Except.ok.injEq, Prod.mk.injEq] at h
    have := beVal_lt b
    rw [readN_len heq] at this
    omega

theorem kvmd_bytes_len (m : KVMd) : m.bytes.length ≤ 11 := by
  obtain ⟨d, e, n⟩ := m
  unfold KVMd.bytes
  cases d <;> cases e <;> cases n <;> simp [Gen.storeTsSize]

theorem txmd_bytes_len (m : TxMd) (K : Nat) (hx : ∀ x, m.extra = some x → x.length ≤ K) :
    m.bytes.length ≤ 12 + K := by
  obtain ⟨t, e⟩ := m
  unfold TxMd.bytes
  cases t <;> cases e <;> simp [Gen.storeTxIDSize, Gen.storeSszSize] at hx ⊢ <;> omega

theorem txmdLoop_extra (K : Nat) (b : Bytes) (m m' : TxMd) (h : txmdLoop b m = .ok m')
    (hb : b.length ≤ K) (hx : ∀ x, m.extra = some x → x.length ≤ K) :
    ∀ x, m'.extra = some x → x.length ≤ K := by
  fun_induction txmdLoop b m with
  | case1 m => cases h; exact hx
  | case2 c rest m hc hl => cases h
  | case3 c rest m hc hl ih =>
    apply ih h
    · simp at hb ⊢; omega
    · exact hx
  | case4 c rest m hc hc2 hl => cases h
  | case5 c rest m hc hc2 hl n body hn => cases h
  | case6 c rest m hc hc2 hl n body hn ih =>
    apply ih h
    · simp [body] at hb ⊢; omega
    · intro x hxe
      simp at hxe
      subst hxe
      simp [body] at hb ⊢
      omega
  | case7 c rest m hc hc2 => cases h

theorem parseTxMd_len {b : Bytes} {m : TxMd} (h : parseTxMd b = .ok m) : m.bytes.length ≤ 280 := by
  unfold parseTxMd at h
  split at h
  · cases h
  · rename_i hl
    have := txmdLoop_extra 268 b {} m h (by simp [Gen.storeMaxTxMetadataLen] at hl; omega) (by simp)
    exact txmd_bytes_len m 268 this

/-- Field bounds of a header accepted by `readHeader`. -/
structure HdrOK (h : TxHeader D) : Prop where
  id_fit : h.id < 2 ^ 64
  ts_fit : h.ts < 2 ^ 64
  bl_fit : h.blTxID < 2 ^ 64
  ver : h.version = 0 ∨ h.version = 1
  md_v0 : h.version = 0 → h.md = []
  md_fit : h.md.length < 2 ^ 16
  ne_fit0 : h.version = 0 → h.nentries < 2 ^ 16
  ne_fit : h.nentries < 2 ^ 32

theorem readHeader_ok {hs : HsD D} {me : Nat} {s s' : Bytes} {h : TxHeader D}
    (hh : readHeader hs me s = .ok (h, s')) : HdrOK h := by
  unfold readHeader at hh
  split at hh
  · cases hh
  rename_i id s1 hid
  split at hh
  · cases hh
  split at hh
  · cases hh
  rename_i ts s2 hts
  split at hh
  · cases hh
  rename_i bl s3 hbl
  split at hh
  · cases hh
  split at hh
  · cases hh
  split at hh
  · cases hh
  rename_i ver s6 hver
  have h1 := readU_lt hid
  have h2 := readU_lt hts
  have h3 := readU_lt hbl
  simp only [Gen.storeTxIDSize, Gen.storeTsSize] at h1 h2 h3
  split at hh
  · split at hh
    · cases hh
    rename_i ne s7 hne
    split at hh
    · cases hh
    simp only [Except.ok.injEq, Prod.mk.injEq] at hh
    obtain ⟨hh, _⟩ := hh
    subst hh
    have h4 := readU_lt hne
    simp only [Gen.storeSszSize] at h4
    exact ⟨by simpa using h1, by simpa using h2, by simpa using h3, Or.inl rfl, fun _ => rfl,
      by simp, fun _ => by simpa using h4, by simp only; omega⟩
  · split at hh
    · split at hh
      · cases hh
      rename_i mdLen s7 hmdLen
      split at hh
      · cases hh
      split at hh
      · cases hh
      rename_i md s8 hmd
      split at hh
      · cases hh
      rename_i ne s9 hne
      split at hh
      · cases hh
      simp only [Except.ok.injEq, Prod.mk.injEq] at hh
      obtain ⟨hh, _⟩ := hh
      subst hh
      have h4 := readU_lt hne
      simp only [Gen.storeLszSize] at h4
      have hmdl : md.length ≤ 280 := by
        split at hmd
        · split at hmd
          · cases hmd
          split at hmd
          · cases hmd
          rename_i m hm
          simp only [Except.ok.injEq, Prod.mk.injEq] at hmd
          rw [← hmd.1]
          exact parseTxMd_len hm
        · simp only [Except.ok.injEq, Prod.mk.injEq] at hmd
          rw [← hmd.1]; simp
      exact ⟨by simpa using h1, by simpa using h2, by simpa using h3, Or.inr rfl,
        fun h => by simp at h, by simp only; omega, fun h => by simp at h, by simpa using h4⟩
    · cases hh

/-- Per-entry facts of an accepted entry. -/
structure EntOK (version : Nat) (e : Entry D) : Prop where
  key_fit : e.key.length < 2 ^ 16
  md_fit : e.md.length < 2 ^ 16
  md_v0 : version = 0 → e.md = []

theorem readEntry_ok {hs : HsD D} {v mk : Nat} {s s' : Bytes} {e : Entry D}
    (h : readEntry hs v mk s = .ok (e, s')) : EntOK v e := by
  unfold readEntry at h
  split at h
  · cases h
  split at h
  · cases h
  rename_i md s2 hmd
  split at h
  · cases h
  rename_i kLen s3 hk
  split at h
  · cases h
  split at h
  · cases h
  rename_i key s4 hkey
  split at h
  · cases h
  split at h
  · cases h
  split at h
  · cases h
  split at h
  · cases h
  rename_i hv
  simp only [Except.ok.injEq, Prod.mk.injEq] at h
  obtain ⟨h, _⟩ := h
  subst h
  have h1 := readU_lt hk
  simp only [Gen.storeSszSize] at h1
  have h2 := readN_len hkey
  have hmdl : md.length ≤ 11 := by
    split at hmd
    · split at hmd
      · cases hmd
      split at hmd
      · cases hmd
      rename_i m hm
      simp only [Except.ok.injEq, Prod.mk.injEq] at hmd
      rw [← hmd.1]
      exact kvmd_bytes_len m
    · simp only [Except.ok.injEq, Prod.mk.injEq] at hmd
      rw [← hmd.1]; simp
  refine ⟨by simp only; omega, by simp only; omega, fun h0 => ?_⟩
  simp only
  by_cases hm : md = []
  · exact hm
  · exact absurd ⟨h0, hm⟩ hv

theorem readEntries_ok {hs : HsD D} {v mk : Nat} : ∀ (n : Nat) {s s' : Bytes} {es : List (Entry D)},
    readEntries hs v mk n s = .ok (es, s') → es.length = n ∧ ∀ e ∈ es, EntOK v e := by
  intro n
  induction n with
  | zero =>
    intro s s' es h
    simp only [readEntries, Except.ok.injEq, Prod.mk.injEq] at h
    rw [← h.1]; simp
  | succ n ih =>
    intro s s' es h
    simp only [readEntries] at h
    split at h
    · cases h
    rename_i e s1 he
    split at h
    · cases h
    rename_i es1 s2 hes
    simp only [Except.ok.injEq, Prod.mk.injEq] at h
    rw [← h.1]
    obtain ⟨hl, hall⟩ := ih hes
    refine ⟨by simp [hl], ?_⟩
    intro e' he'
    simp only [List.mem_cons] at he'
    rcases he' with rfl | he'
    · exact readEntry_ok he
    · exact hall e' he'

/-- Everything the security proofs use about an accepted record. -/
structure Accepted (hs : HsD D) (r : Record D) : Prop where
  alh : alh hs.toHs r.hdr = some r.storedAlh
  eh : r.hdr.eh = ehOf hs r.hdr.version r.entries
  ne : r.hdr.nentries = r.entries.length
  hdr : HdrOK r.hdr
  entries : ∀ e ∈ r.entries, EntOK r.hdr.version e

theorem parseTx_accepted [DecidableEq D] {hs : HsD D} {lim : Limits} {bs : Bytes} {r : Record D}
    (h : parseTx hs lim bs = .ok r) : Accepted hs r := by
  unfold parseTx at h
  split at h
  · cases h
  rename_i h0 s1 hh
  split at h
  · cases h
  rename_i es s2 hes
  split at h
  · cases h
  rename_i stored s3 hst
  simp only at h
  split at h
  · cases h
  split at h
  · cases h
  rename_i a ha
  split at h
  · rename_i heq
    simp only [Except.ok.injEq] at h
    subst h
    subst heq
    have hk := readHeader_ok hh
    obtain ⟨hl, hall⟩ := readEntries_ok _ hes
    exact ⟨ha, rfl, hl.symm, ⟨hk.1, hk.2, hk.3, hk.4, hk.5, hk.6, hk.7, hk.8⟩, hall⟩
  · cases h

theorem ehOf_eq_ehRef (hs : HsD D) (v : Nat) (es : List (Entry D)) : ehOf hs v es = ehRef hs v es := by
  unfold ehOf ehRef
  exact htree_root_eq_mth _ _ _

/-! ## 2. Hash chain: injective or an explicit collision -/

theorem H_inj_or_coll (hs : Hs D) {a b : Bytes} (h : hs.H a = hs.H b) : a = b ∨ HColl hs := by
  by_cases hab : a = b
  · exact Or.inl hab
  · exact Or.inr ⟨a, b, hab, h⟩

theorem coll_mhH (hs : Hs D) (h : Coll hs.mhH) : HColl hs := by
  rcases h with ⟨a, b, c, d, hne, h⟩ | ⟨x, a, b, h⟩ | ⟨x, y, hne, h⟩
  · simp only [Hs.mhH] at h
    rcases H_inj_or_coll hs h with heq | hc
    · exfalso; apply hne
      simp only [List.cons.injEq, true_and] at heq
      obtain ⟨h1, h2⟩ := List.append_inj heq (by simp [hs.enc_len])
      rw [hs.enc_inj _ _ h1, hs.enc_inj _ _ h2]
    · exact hc
  · simp only [Hs.mhH] at h
    rcases H_inj_or_coll hs h with heq | hc
    · exfalso
      simp only [List.cons.injEq, Gen.htreeLeafPrefix, Gen.htreeNodePrefix] at heq
      exact absurd heq.1 (by decide)
    · exact hc
  · simp only [Hs.mhH] at h
    rcases H_inj_or_coll hs h with heq | hc
    · exfalso; apply hne
      simp only [List.cons.injEq, true_and] at heq
      exact heq
    · exact hc

theorem mth_inj_or_coll (mh : MH D) : ∀ (n : Nat) (xs ys : List D), xs.length = n → ys.length = n →
    mth mh xs = mth mh ys → xs = ys ∨ Coll mh := by
  intro n
  induction n using Nat.strongRecOn with
  | _ n ih =>
    intro xs ys hx hy h
    by_cases h2 : 2 ≤ n
    · rw [mth_split mh xs (by omega), mth_split mh ys (by omega), hx, hy] at h
      have hp := pow2lt_lt n h2
      have hp0 := pow2lt_pos n
      rcases nodeH_inj_or_coll mh h with ⟨hl, hr⟩ | hc
      · rcases ih (pow2lt n) hp _ _ (by simp; omega) (by simp; omega) hl with h1 | hc
        · rcases ih (n - pow2lt n) (by omega) _ _ (by simp; omega) (by simp; omega) hr with h2' | hc
          · left
            rw [← List.take_append_drop (pow2lt n) xs, ← List.take_append_drop (pow2lt n) ys, h1, h2']
          · exact Or.inr hc
        · exact Or.inr hc
      · exact Or.inr hc
    · left
      match xs, ys, hx, hy with
      | [], [], _, _ => rfl
      | [x], [y], _, _ => simpa using h
      | [], _ :: _, hx, hy => simp at hx hy; omega
      | _ :: _, [], hx, hy => simp at hx hy; omega
      | [_], _ :: _ :: _, hx, hy => simp at hx hy; omega
      | _ :: _ :: _, _, hx, hy => simp at hx hy; omega

theorem innerBytes_v0 (hs : Hs D) (h : TxHeader D) (hv : h.version = 0) :
    innerBytes hs h = some (beN 8 h.ts ++ (beN 2 h.version ++ (beN 2 h.nentries ++
      (hs.enc h.eh ++ (beN 8 h.blTxID ++ hs.enc h.blRoot))))) := by
  simp [innerBytes, hv, Gen.storeTsSize, Gen.storeSszSize, Gen.storeTxIDSize]

theorem innerBytes_v1 (hs : Hs D) (h : TxHeader D) (hv : h.version = 1) :
    innerBytes hs h = some (beN 8 h.ts ++ (beN 2 h.version ++ (beN 2 h.md.length ++ (h.md ++
      (beN 4 h.nentries ++ (hs.enc h.eh ++ (beN 8 h.blTxID ++ hs.enc h.blRoot))))))) := by
  simp [innerBytes, hv, Gen.storeTsSize, Gen.storeSszSize, Gen.storeTxIDSize, Gen.storeLszSize]

theorem beN_app_inj (w a b : Nat) {x y : Bytes} (ha : a < 256 ^ w) (hb : b < 256 ^ w)
    (h : beN w a ++ x = beN w b ++ y) : a = b ∧ x = y := by
  obtain ⟨h1, h2⟩ := List.append_inj h (by simp)
  exact ⟨beN_inj w a b ha hb h1, h2⟩

theorem enc_app_inj (hs : Hs D) {a b : D} {x y : Bytes} (h : hs.enc a ++ x = hs.enc b ++ y) :
    a = b ∧ x = y := by
  obtain ⟨h1, h2⟩ := List.append_inj h (by simp [hs.enc_len])
  exact ⟨hs.enc_inj _ _ h1, h2⟩

theorem innerBytes_inj (hs : Hs D) (h h' : TxHeader D) (ok : HdrOK h) (ok' : HdrOK h') (b : Bytes)
    (hb : innerBytes hs h = some b) (hb' : innerBytes hs h' = some b) :
    h.ts = h'.ts ∧ h.version = h'.version ∧ h.md = h'.md ∧ h.nentries = h'.nentries ∧ h.eh = h'.eh ∧
    h.blTxID = h'.blTxID ∧ h.blRoot = h'.blRoot := by
  have hver : h.version = h'.version := by
    rcases ok.ver with hv | hv <;> rcases ok'.ver with hv' | hv'
    · omega
    · rw [innerBytes_v0 hs h hv] at hb; rw [innerBytes_v1 hs h' hv'] at hb'
      rw [← hb'] at hb; simp only [Option.some.injEq] at hb
      obtain ⟨_, hb⟩ := beN_app_inj 8 _ _ ok.ts_fit ok'.ts_fit hb
      exact (beN_app_inj 2 _ _ (by omega) (by omega) hb).1
    · rw [innerBytes_v1 hs h hv] at hb; rw [innerBytes_v0 hs h' hv'] at hb'
      rw [← hb'] at hb; simp only [Option.some.injEq] at hb
      obtain ⟨_, hb⟩ := beN_app_inj 8 _ _ ok.ts_fit ok'.ts_fit hb
      exact (beN_app_inj 2 _ _ (by omega) (by omega) hb).1
    · omega
  rcases ok.ver with hv | hv
  · have hv' : h'.version = 0 := by omega
    rw [innerBytes_v0 hs h hv] at hb; rw [innerBytes_v0 hs h' hv'] at hb'
    rw [← hb'] at hb; simp only [Option.some.injEq] at hb
    obtain ⟨e1, hb⟩ := beN_app_inj 8 _ _ ok.ts_fit ok'.ts_fit hb
    obtain ⟨e2, hb⟩ := beN_app_inj 2 _ _ (by omega) (by omega) hb
    obtain ⟨e3, hb⟩ := beN_app_inj 2 _ _ (ok.ne_fit0 hv) (ok'.ne_fit0 hv') hb
    obtain ⟨e4, hb⟩ := enc_app_inj hs hb
    have hb : beN 8 h.blTxID ++ (hs.enc h.blRoot ++ []) = beN 8 h'.blTxID ++ (hs.enc h'.blRoot ++ []) := by
      simpa using hb
    obtain ⟨e5, hb⟩ := beN_app_inj 8 _ _ ok.bl_fit ok'.bl_fit hb
    obtain ⟨e6, _⟩ := enc_app_inj hs hb
    exact ⟨e1, e2, by rw [ok.md_v0 hv, ok'.md_v0 hv'], e3, e4, e5, e6⟩
  · have hv' : h'.version = 1 := by omega
    rw [innerBytes_v1 hs h hv] at hb; rw [innerBytes_v1 hs h' hv'] at hb'
    rw [← hb'] at hb; simp only [Option.some.injEq] at hb
    obtain ⟨e1, hb⟩ := beN_app_inj 8 _ _ ok.ts_fit ok'.ts_fit hb
    obtain ⟨e2, hb⟩ := beN_app_inj 2 _ _ (by omega) (by omega) hb
    obtain ⟨e3, hb⟩ := beN_app_inj 2 _ _ ok.md_fit ok'.md_fit hb
    obtain ⟨e3', hb⟩ := List.append_inj hb e3
    obtain ⟨e4, hb⟩ := beN_app_inj 4 _ _ ok.ne_fit ok'.ne_fit hb
    obtain ⟨e5, hb⟩ := enc_app_inj hs hb
    have hb : beN 8 h.blTxID ++ (hs.enc h.blRoot ++ []) = beN 8 h'.blTxID ++ (hs.enc h'.blRoot ++ []) := by
      simpa using hb
    obtain ⟨e6, hb⟩ := beN_app_inj 8 _ _ ok.bl_fit ok'.bl_fit hb
    obtain ⟨e7, _⟩ := enc_app_inj hs hb
    exact ⟨e1, e2, e3', e4, e5, e6, e7⟩

theorem alh_inj_or_coll (hs : Hs D) (h h' : TxHeader D) (ok : HdrOK h) (ok' : HdrOK h') (a : D)
    (ha : alh hs h = some a) (ha' : alh hs h' = some a) : h = h' ∨ HColl hs := by
  unfold alh innerHash at ha ha'
  cases hb : innerBytes hs h with
  | none => rw [hb] at ha; simp at ha
  | some b =>
  cases hb' : innerBytes hs h' with
  | none => rw [hb'] at ha'; simp at ha'
  | some b' =>
  rw [hb] at ha; rw [hb'] at ha'
  simp only [Option.map_some, Option.some.injEq] at ha ha'
  rw [← ha'] at ha
  unfold advance at ha
  rcases H_inj_or_coll hs ha with heq | hc
  · simp only [Gen.storeTxIDSize, List.append_assoc] at heq
    obtain ⟨e1, heq⟩ := beN_app_inj 8 _ _ ok.id_fit ok'.id_fit heq
    obtain ⟨e2, heq⟩ := enc_app_inj hs heq
    have heq : hs.enc (hs.H b) ++ [] = hs.enc (hs.H b') ++ [] := by simpa using heq
    obtain ⟨e3, _⟩ := enc_app_inj hs heq
    rcases H_inj_or_coll hs e3 with hbb | hc
    · subst hbb
      obtain ⟨f1, f2, f3, f4, f5, f6, f7⟩ := innerBytes_inj hs h h' ok ok' b hb hb'
      left
      obtain ⟨_, _, _, _, _, _, _, _, _⟩ := h
      obtain ⟨_, _, _, _, _, _, _, _, _⟩ := h'
      simp only at e1 e2 f1 f2 f3 f4 f5 f6 f7
      simp only [TxHeader.mk.injEq]
      exact ⟨e1, f1, f6, f7, e2, f2, f3, f4, f5⟩
    · exact Or.inr hc
  · exact Or.inr hc

/-! ## 3. Entries -/

theorem entryDigest_inj_or_coll (hs : HsD D) (v : Nat) (hv : v = 0 ∨ v = 1) (e e' : Entry D)
    (ok : EntOK v e) (ok' : EntOK v e') (h : entryDigest hs v e = entryDigest hs v e') :
    (e.md, e.key, e.hVal) = (e'.md, e'.key, e'.hVal) ∨ HColl hs.toHs := by
  unfold entryDigest at h
  rcases hv with hv | hv
  · subst hv
    simp only [if_true, entryDigestV0] at h
    rcases H_inj_or_coll hs.toHs h with heq | hc
    · left
      obtain ⟨h1, h2⟩ := List.append_inj' heq (by simp [hs.enc_len])
      rw [ok.md_v0 rfl, ok'.md_v0 rfl, h1, hs.enc_inj _ _ h2]
    · exact Or.inr hc
  · subst hv
    simp only [Nat.one_ne_zero, if_false, entryDigestV1, Gen.storeSszSize, List.append_assoc] at h
    rcases H_inj_or_coll hs.toHs h with heq | hc
    · left
      obtain ⟨e1, heq⟩ := beN_app_inj 2 _ _ ok.md_fit ok'.md_fit heq
      obtain ⟨e1', heq⟩ := List.append_inj heq e1
      obtain ⟨e2, heq⟩ := beN_app_inj 2 _ _ ok.key_fit ok'.key_fit heq
      obtain ⟨e2', heq⟩ := List.append_inj heq e2
      rw [e1', e2', hs.enc_inj _ _ heq]
    · exact Or.inr hc

theorem leaves_inj_or_coll (hs : HsD D) (v : Nat) (hv : v = 0 ∨ v = 1) :
    ∀ (es es' : List (Entry D)), (∀ e ∈ es, EntOK v e) → (∀ e ∈ es', EntOK v e) →
    (es.map (entryDigest hs v)).map (fun d => hs.toHs.mhH.leafH (hs.enc d)) =
      (es'.map (entryDigest hs v)).map (fun d => hs.toHs.mhH.leafH (hs.enc d)) →
    es.map (fun e => (e.md, e.key, e.hVal)) = es'.map (fun e => (e.md, e.key, e.hVal)) ∨
      HColl hs.toHs := by
  intro es
  induction es with
  | nil =>
    intro es' _ _ h
    cases es' with
    | nil => exact Or.inl rfl
    | cons _ _ => simp at h
  | cons e es ih =>
    intro es' ok ok' h
    cases es' with
    | nil => simp at h
    | cons e' es' =>
      simp only [List.map_cons, List.cons.injEq] at h
      obtain ⟨hh, ht⟩ := h
      simp only [Hs.mhH] at hh
      rcases H_inj_or_coll hs.toHs hh with heq | hc
      · simp only [List.cons.injEq, true_and] at heq
        have hd := hs.enc_inj _ _ heq
        rcases entryDigest_inj_or_coll hs v hv e e' (ok e (by simp)) (ok' e' (by simp)) hd with h1 | hc
        · rcases ih es' (fun x hx => ok x (by simp [hx])) (fun x hx => ok' x (by simp [hx])) ht with h2 | hc
          · left; simp only [List.map_cons, h1, h2]
          · exact Or.inr hc
        · exact Or.inr hc
      · exact Or.inr hc

/-! ## 4. The two theorems -/

theorem accepted_binds_covered (hs : HsD D) (r r' : Record D) (ac : Accepted hs r) (ac' : Accepted hs r')
    (ha : r'.storedAlh = r.storedAlh) : covered r' = covered r ∨ HColl hs.toHs := by
  have h1 := ac.alh
  have h2 := ac'.alh
  rw [ha] at h2
  rcases alh_inj_or_coll hs.toHs r'.hdr r.hdr ac'.hdr ac.hdr _ h2 h1 with hh | hc
  · have e1 := ac.eh
    have e2 := ac'.eh
    rw [hh, e1, ehOf_eq_ehRef, ehOf_eq_ehRef] at e2
    unfold ehRef at e2
    have hl : r.entries.length = r'.entries.length := by
      rw [← ac.ne, ← ac'.ne, hh]
    have oks' := ac'.entries
    rw [hh] at oks'
    rcases mth_inj_or_coll hs.toHs.mhH r.entries.length _ _ (by simp) (by simp [hl]) e2 with hm | hc
    · rcases leaves_inj_or_coll hs r.hdr.version ac.hdr.ver _ _ ac.entries oks' hm with he | hc
      · left
        unfold covered
        rw [hh, he]
      · exact Or.inr hc
    · exact Or.inr (coll_mhH hs.toHs hc)
  · exact Or.inr hc

end Auth
open Auth

variable [DecidableEq D]

theorem parse_authentic_thm (hs : HsD D) (lim : Limits) (bs : Bytes) (r : Record D)
    (h : parseTx hs lim bs = .ok r) :
    alh hs.toHs r.hdr = some r.storedAlh ∧ r.hdr.eh = ehRef hs r.hdr.version r.entries ∧
    r.hdr.nentries = r.entries.length := by
  have ac := parseTx_accepted h
  exact ⟨ac.alh, by rw [← ehOf_eq_ehRef]; exact ac.eh, ac.ne⟩

theorem alh_binds_covered_thm (hs : HsD D) (lim lim' : Limits) (bs bs' : Bytes) (r r' : Record D)
    (h : parseTx hs lim bs = .ok r) (h' : parseTx hs lim' bs' = .ok r')
    (ha : r'.storedAlh = r.storedAlh) :
    covered r' = covered r ∨ HColl hs.toHs :=
  accepted_binds_covered hs r r' (parseTx_accepted h) (parseTx_accepted h') ha

end ImmuModel.Tx.Rec
