/-
C09 — vocabulary of the property statements about `Tx/Record.lean` (core only):
well-formed records (what `performPrecommit` writes), the content an Alh commits to
(`covered`), and re-sealing an altered record with a recomputed Eh/Alh (K2).
-/
import ImmuModel.Tx.Record
import ImmuModel.Merkle.Mth

namespace ImmuModel.Tx.Rec
variable {D : Type}

/-- Attribute values representable in the stored encodings. -/
def KVMd.WF (m : KVMd) : Prop := ∀ t, m.expiresAt = some t → t < 2 ^ 64

def TxMd.WF (m : TxMd) : Prop :=
  (∀ t, m.truncated = some t → t < 2 ^ 64) ∧ (∀ x, m.extra = some x → x.length ≤ Gen.storeMaxExtraLen)

/-- An entry as `performPrecommit` can write it under the limits of the store. -/
structure Entry.WF (version : Nat) (lim : Limits) (e : Entry D) : Prop where
  md : ∃ k : KVMd, k.WF ∧ e.md = k.bytes
  md_v0 : version = 0 → e.md = []
  key_max : e.key.length ≤ lim.maxKeyLen
  key_fit : e.key.length < 2 ^ 16
  vLen_fit : e.vLen < 2 ^ 32
  vOff_fit : e.vOff < 2 ^ 64

/-- A record as `performPrecommit` writes it: representable fields, version 0/1, canonical
metadata, `NEntries = len(entries)`, `Eh` = entry-tree root, trailing Alh = `Alh()`. -/
structure Record.WF (hs : HsD D) (lim : Limits) (r : Record D) : Prop where
  id_pos : 0 < r.hdr.id
  id_fit : r.hdr.id < 2 ^ 64
  ts_fit : r.hdr.ts < 2 ^ 64
  bl_fit : r.hdr.blTxID < 2 ^ 64
  ver : r.hdr.version = 0 ∨ r.hdr.version = 1
  md_v0 : r.hdr.version = 0 → r.hdr.md = []
  md : ∃ m : TxMd, m.WF ∧ r.hdr.md = m.bytes
  ne : r.hdr.nentries = r.entries.length
  ne_max : r.entries.length ≤ lim.maxEntries
  ne_fit0 : r.hdr.version = 0 → r.entries.length < 2 ^ 16
  ne_fit : r.entries.length < 2 ^ 32
  entries : ∀ e ∈ r.entries, Entry.WF r.hdr.version lim e
  eh : r.hdr.eh = ehOf hs r.hdr.version r.entries
  alh : alh hs.toHs r.hdr = some r.storedAlh

/-- What the Alh of a transaction commits to: every header field, and per entry the key,
the kv metadata and the value hash.  NOT covered: `vLen`, `vOff` (and `Eh`, which is a
function of the covered entries). -/
structure Covered (D : Type) where
  id : Nat
  ts : Nat
  blTxID : Nat
  blRoot : D
  prevAlh : D
  version : Nat
  md : Bytes
  nentries : Nat
  entries : List (Bytes × Bytes × D)     -- (kv metadata, key, hVal)

def covered (r : Record D) : Covered D :=
  { id := r.hdr.id, ts := r.hdr.ts, blTxID := r.hdr.blTxID, blRoot := r.hdr.blRoot, prevAlh := r.hdr.prevAlh,
    version := r.hdr.version, md := r.hdr.md, nentries := r.hdr.nentries,
    entries := r.entries.map fun e => (e.md, e.key, e.hVal) }

/-- K2: replace the entries of a record and recompute `NEntries`, `Eh` and the trailing
Alh consistently (what an adversary with write access to the tx log can do). -/
def reseal (hs : HsD D) (h : TxHeader D) (es : List (Entry D)) : Option (Record D) :=
  let h' : TxHeader D := { h with nentries := es.length, eh := ehOf hs h.version es }
  (alh hs.toHs h').map fun a => ⟨h', es, a⟩

/-- The reference Merkle root (C08 `mth`, htree prefixes) over the leaf-wrapped entry digests. -/
def ehRef (hs : HsD D) (version : Nat) (es : List (Entry D)) : D :=
  Merkle.mth hs.toHs.mhH ((es.map (entryDigest hs version)).map fun d => hs.toHs.mhH.leafH (hs.enc d))

end ImmuModel.Tx.Rec
