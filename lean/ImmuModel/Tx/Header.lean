/-
TxHeader hashing (embedded/store/tx.go: innerHash, Alh) and advanceLinearHash
(verification.go).  Field widths come from the regenerated constants.
-/
import ImmuModel.Tx.Hs

namespace ImmuModel.Tx
variable {D : Type}

/-- `store.TxHeader`.  `md` is `Metadata.Bytes()` (empty when nil); `ts` is the uint64 cast
of the int64 timestamp. -/
structure TxHeader (D : Type) where
  id : Nat
  ts : Nat
  blTxID : Nat
  blRoot : D
  prevAlh : D
  version : Nat
  md : Bytes
  nentries : Nat
  eh : D

/-- The bytes hashed by `innerHash`; `none` = Go panics (`missing tx hash calculation
method for version`). -/
def innerBytes (hs : Hs D) (h : TxHeader D) : Option Bytes :=
  let pre := beN Gen.storeTsSize h.ts ++ beN Gen.storeSszSize h.version
  let post := hs.enc h.eh ++ beN Gen.storeTxIDSize h.blTxID ++ hs.enc h.blRoot
  if h.version = 0 then
    some (pre ++ beN Gen.storeSszSize h.nentries ++ post)
  else if h.version = 1 then
    some (pre ++ beN Gen.storeSszSize h.md.length ++ h.md ++ beN Gen.storeLszSize h.nentries ++ post)
  else none

def innerHash (hs : Hs D) (h : TxHeader D) : Option D := (innerBytes hs h).map hs.H

/-- `advanceLinearHash(alh, txID, term)` = H(txID ‖ alh ‖ term). -/
def advance (hs : Hs D) (prev : D) (txID : Nat) (inner : D) : D :=
  hs.H (beN Gen.storeTxIDSize txID ++ hs.enc prev ++ hs.enc inner)

/-- `TxHeader.Alh()`. -/
def alh (hs : Hs D) (h : TxHeader D) : Option D :=
  (innerHash hs h).map (advance hs h.prevAlh h.id)

end ImmuModel.Tx
