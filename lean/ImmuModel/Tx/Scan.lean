/-
C09 — sequential scans (embedded/store/tx_reader.go `TxReader.Read`): every transaction is
parsed with the integrity check AND chained to its neighbour through `PrevAlh`.
The reader keeps `CurrAlh`; the first read has nothing to compare with
(`InitialTxID == CurrTxID`).  Core Lean only.
-/
import ImmuModel.Tx.Record

namespace ImmuModel.Tx.Rec
variable {D : Type} [DecidableEq D]

/-- One ascending `Read()`: `cur = none` on the first read.  Returns the record and the new
`CurrAlh` (`header.Alh()`, which equals the stored Alh of an accepted record). -/
def scanStepAsc (hs : HsD D) (lim : Limits) (cur : Option D) (s : Bytes) : Except Err (Record D × D) :=
  match parseTx hs lim s with
  | .error e => .error e
  | .ok r =>
    match cur with
    | none => .ok (r, r.storedAlh)
    | some c => if c = r.hdr.prevAlh then .ok (r, r.storedAlh) else .error .alhMismatch

/-- One descending `Read()`: compares `CurrAlh` (the `PrevAlh` of the transaction read
before) with this transaction's `Alh()`; the new `CurrAlh` is this header's `PrevAlh`. -/
def scanStepDesc (hs : HsD D) (lim : Limits) (cur : Option D) (s : Bytes) : Except Err (Record D × D) :=
  match parseTx hs lim s with
  | .error e => .error e
  | .ok r =>
    match cur with
    | none => .ok (r, r.hdr.prevAlh)
    | some c => if c = r.storedAlh then .ok (r, r.hdr.prevAlh) else .error .alhMismatch

/-- An ascending scan over the record streams of consecutive transactions (stops at the first error). -/
def scanAsc (hs : HsD D) (lim : Limits) : Option D → List Bytes → Except Err (List (Record D))
  | _, [] => .ok []
  | cur, s :: rest =>
    match scanStepAsc hs lim cur s with
    | .error e => .error e
    | .ok (r, c) =>
      match scanAsc hs lim (some c) rest with
      | .error e => .error e
      | .ok rs => .ok (r :: rs)

/-- Consecutive records are linked: each `PrevAlh` is the stored Alh of its predecessor. -/
def Linked : List (Record D) → Prop
  | [] => True
  | [_] => True
  | a :: b :: rest => b.hdr.prevAlh = a.storedAlh ∧ Linked (b :: rest)

end ImmuModel.Tx.Rec
