/- C09 — import hub for the proof files about `Tx/Record.lean`. -/
import ImmuModel.Tx.RecordRoundTrip
import ImmuModel.Tx.RecordAuth
import ImmuModel.Tx.RecordTotal
import ImmuModel.Tx.ValueCacheProofs
import ImmuModel.Tx.EntryDigestProofs
