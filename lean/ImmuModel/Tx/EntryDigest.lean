/-
C09 — the entry digest FUNCTIONS of the tx reader / writer (embedded/store/tx.go), with their
refusals, as separate objects (core Lean only).

  `TxHeader.TxEntryDigest()`   switch hdr.Version { 0 → TxEntryDigest_v1_1, 1 → TxEntryDigest_v1_2,
                               default → ErrCorruptedTxDataUnknownHeaderVersion }
  `TxEntryDigest_v1_1(e)`      the LEGACY digest of header version 0 records (data written by
                               immudb ≤ 1.1): `H(key ‖ hVal)`.  It does NOT hash the kv metadata, so
                               it must refuse every entry that carries some:
                               `if e.md != nil && len(e.md.Bytes()) > 0 { return ErrMetadataUnsupported }`
  `TxEntryDigest_v1_2(e)`      `H(be16 |md| ‖ md ‖ be16 |key| ‖ key ‖ hVal)` with `md = e.md.Bytes()`:
                               covers the metadata, never refuses.

`Entry.md` of the record model is the canonical `KVMetadata.Bytes()` of the PARSED metadata (`[]`
for nil), so the Go guard `e.md != nil && len(e.md.Bytes()) > 0` is `e.md ≠ []`.  The guard is
stated on the SERIALISED length, not on individual attributes: `KVMd.bytes m = [] ↔ m = {}`
(`Tx/EntryDigestProofs.lean`) shows that this refuses every attribute (deleted, expiresAt,
nonIndexable) and every combination.

`digestsOf` = the `t.digests = append(t.digests, digest)` accumulation of `readEntry` /
the loop of `Tx.BuildHashTree`; `ehChecked` = `htree.BuildWith(digests).Root()` on top of it.
`readEntry` of `Tx/Record.lean` keeps its inlined guard (`version = 0 ∧ md ≠ []`); the two are tied
by `readEntry_digest_ok` / `parseTx_eh_checked` (proof file).
-/
import ImmuModel.Tx.Record

namespace ImmuModel.Tx.Rec
open ImmuModel.Merkle
variable {D : Type}

/-- `TxEntryDigest_v1_1`. -/
def entryDigestV11 (hs : HsD D) (e : Entry D) : Except Err D :=
  if e.md ≠ [] then .error .mdUnsupported
  else .ok (entryDigestV0 hs.toHs e.key e.hVal)

/-- `TxEntryDigest_v1_2`. -/
def entryDigestV12 (hs : HsD D) (e : Entry D) : Except Err D :=
  .ok (entryDigestV1 hs.toHs e.md e.key e.hVal)

/-- `hdr.TxEntryDigest()` applied to an entry. -/
def digestFunc (hs : HsD D) (version : Nat) (e : Entry D) : Except Err D :=
  if version = 0 then entryDigestV11 hs e
  else if version = 1 then entryDigestV12 hs e
  else .error .unknownVersion

/-- The digests of the entries in order; the first refusal aborts (as the entry loop does). -/
def digestsOf (hs : HsD D) (version : Nat) : List (Entry D) → Except Err (List D)
  | [] => .ok []
  | e :: es =>
    match digestFunc hs version e with
    | .error x => .error x
    | .ok d =>
      match digestsOf hs version es with
      | .error x => .error x
      | .ok ds => .ok (d :: ds)

/-- `Eh` as the checked reader / `BuildHashTree` compute it, refusals included. -/
def ehChecked (hs : HsD D) (version : Nat) (es : List (Entry D)) : Except Err D :=
  match digestsOf hs version es with
  | .error x => .error x
  | .ok ds => .ok (HTree.build hs.toHs.mhH hs.enc ds).root

/-- An entry with the kv metadata given as ATTRIBUTES (what `NewTxEntry(key, md, …)` holds). -/
def Entry.ofKVMd (m : Option KVMd) (key : Bytes) (vLen vOff : Nat) (hVal : D) : Entry D :=
  ⟨(match m with | some k => k.bytes | none => []), key, vLen, vOff, hVal⟩

end ImmuModel.Tx.Rec
