/-
Helper lemmas for Props/C18.lean: what an `allow` verdict of the gate model implies, and the Bool-valued table
checkers (evaluated by `decide` over the WHOLE regenerated tables) that the property theorems lift.
-/
import ImmuModel.Auth.Matrix

namespace ImmuModel.Auth
open ImmuModel

/-! ### generic list facts -/

theorem lookup_mem {α β : Type} [BEq α] [LawfulBEq α] {l : List (α × β)} {a : α} {b : β}
    (h : l.lookup a = some b) : (a, b) ∈ l := by
  induction l with
  | nil => simp [List.lookup] at h
  | cons x xs ih =>
    obtain ⟨k, v⟩ := x
    simp only [List.lookup] at h
    by_cases hk : a == k
    · simp [hk] at h
      have : a = k := by simpa using hk
      subst this; subst h; exact List.mem_cons_self
    · simp [hk] at h
      exact List.mem_cons_of_mem _ (ih h)

/-- A Bool checker that holds for every row of the specification table holds for the row of any classified name. -/
theorem effect_row {P : String → Effect → Bool}
    (hchk : effectTable.all (fun ne => P ne.1 ne.2) = true) {n : String} {e : Effect}
    (h : effect? n = some e) : P n e = true := by
  have hm : (n, e) ∈ effectTable := lookup_mem h
  exact List.all_eq_true.mp hchk (n, e) hm

theorem handler?_name {n : String} {h : Gen.Handler} (hh : handler? n = some h) : h.name = n := by
  unfold handler? at hh
  have := List.find?_some hh
  simpa using this

/-! ### getDBFromCtx -/

theorem hasPerm_mem {p : Nat} {m : String} (h : hasPermissionForMethod p m = true) :
    ∃ l, permsOf m = some l ∧ p ∈ l := by
  unfold hasPermissionForMethod at h
  cases hp : permsOf m with
  | none => simp [hp] at h
  | some l =>
    simp [hp] at h
    exact ⟨l, rfl, h⟩

/-- What `getDBFromCtx … = allow` means when authentication is enabled. -/
theorem getDB_allow {cfg : Config} {c : Caller} {m : String} (ha : cfg.auth = true)
    (h : getDBFromCtx cfg c m = .allow) :
    credsOk c = true ∧ c.db ≠ .none ∧ c.db ≠ .missing ∧
    (c.sysadmin = true ∨ hasPermissionForMethod c.permSel m = true) ∧
    (c.db = .system → isMaintenanceMethod m = true) := by
  obtain ⟨a, md, mt⟩ := cfg
  obtain ⟨kind, state, db, sa, ps, pn, aa, tx, ml, sp⟩ := c
  simp only at ha; subst ha
  simp only [getDBFromCtx, credsOk, tokenExpired] at h ⊢
  generalize isMaintenanceMethod m = b1 at h ⊢
  generalize hasPermissionForMethod ps m = b2 at h ⊢
  revert h
  cases md <;> cases mt <;> cases kind <;> cases state <;> cases db <;> cases sa <;> cases b1 <;> cases b2 <;> simp

theorem gates_allow {cfg : Config} {c : Caller} {gs : List String}
    (h : gatesVerdict cfg c gs = .allow) : ∀ g ∈ gs, getDBFromCtx cfg c g = .allow := by
  induction gs with
  | nil => intro g hg; cases hg
  | cons x xs ih =>
    intro g hg
    unfold gatesVerdict at h
    cases hx : getDBFromCtx cfg c x <;> simp [hx] at h
    rcases List.mem_cons.mp hg with rfl | hg'
    · exact hx
    · exact ih h g hg'

theorem sqlStmt_allow {cfg : Config} {c : Caller} {w : Bool}
    (h : sqlStmtGate cfg c w = .allow) :
    credsOk c = true ∧ getDBFromCtx cfg c "SQLQuery" = .allow ∧
    (w = true → c.sysadmin = true ∨ (c.permSel == Gen.permissionR) = false) := by
  unfold sqlStmtGate at h
  generalize getDBFromCtx cfg c "SQLQuery" = v at h ⊢
  generalize credsOk c = b at h ⊢
  generalize (c.permSel == Gen.permissionR) = p at h ⊢
  generalize c.sysadmin = sa at h ⊢
  generalize c.sqlPriv = sp at h ⊢
  revert h
  cases v <;> cases b <;> cases p <;> cases sa <;> cases sp <;> cases w <;> simp

/-! ### structure of handlerGate / rpcGate -/

theorem rpcGate_allow {cfg : Config} {c : Caller} {r : Gen.Rpc} (h : rpcGate cfg c r = .allow) :
    interceptorRefuses c r = false ∧ ∃ hd, handler? r.handler = some hd ∧ handlerGate cfg c hd = .allow := by
  unfold rpcGate at h
  cases hi : interceptorRefuses c r <;> simp [hi] at h
  cases hh : handler? r.handler with
  | none => simp [hh] at h
  | some hd =>
    simp [hh] at h
    exact ⟨rfl, hd, rfl, h⟩

theorem handlerGate_nil {cfg : Config} {c : Caller} {hd : Gen.Handler} (hg : hd.dbGates = [])
    (h : handlerGate cfg c hd = .allow) : ∃ k, special? hd.name = some k ∧ specialGate cfg c k = .allow := by
  unfold handlerGate at h
  simp only [hg] at h
  cases hs : special? hd.name with
  | none => simp [hs] at h
  | some k => simp [hs] at h; exact ⟨k, rfl, h⟩

theorem handlerGate_cons {cfg : Config} {c : Caller} {hd : Gen.Handler} {g : String} {gs : List String}
    (hg : hd.dbGates = g :: gs) (h : handlerGate cfg c hd = .allow) :
    gatesVerdict cfg c (g :: gs) = .allow := by
  unfold handlerGate at h
  simp only [hg] at h
  generalize gatesVerdict cfg c (g :: gs) = v at h ⊢
  generalize (hd.maint && cfg.maint) = b at h
  revert h
  cases v <;> cases b <;> simp

/-- The first gate of a gated handler was passed. -/
theorem handlerGate_first {cfg : Config} {c : Caller} {hd : Gen.Handler} {g : String} {gs : List String}
    (hg : hd.dbGates = g :: gs) (h : handlerGate cfg c hd = .allow) : getDBFromCtx cfg c g = .allow :=
  gates_allow (handlerGate_cons hg h) g List.mem_cons_self

/-! ### handlers without getDBFromCtx -/

/-- admin-level kinds of the reviewed list -/
def Special.isAdminKind : Special → Bool
  | .createDatabase | .dbAdmin _ | .createUser | .changePermission | .adminAnywhere | .unsupported => true
  | _ => false

theorem special_admin {cfg : Config} {c : Caller} {k : Special} (ha : cfg.auth = true) (hk : k.isAdminKind = true)
    (h : specialGate cfg c k = .allow) :
    c.sysadmin = true ∨ c.permNamed = Gen.permissionAdmin ∨ c.anyAdmin = true := by
  cases k <;> simp only [Special.isAdminKind] at hk <;> try (exact absurd hk (by decide))
  all_goals
    simp only [specialGate, ha] at h
    repeat' (split at h)
    all_goals (first | (exact absurd h (by decide)) | skip)
    all_goals simp_all [isAdminOn]
  all_goals (cases hs : c.sysadmin <;> simp_all)

theorem special_dbAdmin {cfg : Config} {c : Caller} {mc : Bool} (ha : cfg.auth = true)
    (h : specialGate cfg c (.dbAdmin mc) = .allow) :
    c.sysadmin = true ∨ c.permNamed = Gen.permissionAdmin := by
  simp only [specialGate, ha] at h
  repeat' (split at h)
  all_goals (first | (exact absurd h (by decide)) | skip)
  all_goals simp_all [isAdminOn]
  all_goals (cases hs : c.sysadmin <;> simp_all)

theorem sessionOk_creds {c : Caller} (h : sessionOk c = true) : credsOk c = true := by
  obtain ⟨kind, state, db, sa, ps, pn, aa, tx, ml, sp⟩ := c
  simp only [sessionOk, credsOk] at h ⊢
  revert h
  cases kind <;> cases state <;> simp

/-- Without usable credentials (and outside maintenance mode) only the `open_`/`login` kinds — and `keepAlive`, which
relies on the interceptor — let a request through. -/
theorem special_needs_creds {cfg : Config} {c : Caller} {k : Special} (ha : cfg.auth = true) (hm : cfg.maint = false)
    (hc : credsOk c = false) (h : specialGate cfg c k = .allow) :
    k = .open_ ∨ k = .login ∨ (k = .keepAlive ∧ c.kind = .session) := by
  have hso : sessionOk c = false := by
    cases hs : sessionOk c
    · rfl
    · rw [sessionOk_creds hs] at hc; cases hc
  cases k
  all_goals simp only [specialGate, ha, hm, hc, hso] at h
  all_goals (try (repeat' (split at h)))
  all_goals (first | (exact absurd h (by decide)) | skip)
  all_goals simp_all

/-! ### Bool checkers over the regenerated tables -/

def permsWithin (g : String) (allowed : List Nat) : Bool :=
  match permsOf g with
  | none => true      -- no row: `HasPermissionForMethod` is false for everybody
  | some l => l.all (fun p => allowed.contains p)

theorem permsWithin_spec {g : String} {allowed : List Nat} {p : Nat} (hw : permsWithin g allowed = true)
    (hp : hasPermissionForMethod p g = true) : p ∈ allowed := by
  obtain ⟨l, hl, hm⟩ := hasPerm_mem hp
  unfold permsWithin at hw
  simp [hl] at hw
  exact hw p hm

def rwCodes : List Nat := [Gen.permissionRW, Gen.permissionAdmin, Gen.permissionSysAdmin]
def rCodes : List Nat := [Gen.permissionR, Gen.permissionRW, Gen.permissionAdmin, Gen.permissionSysAdmin]
def adminCodes : List Nat := [Gen.permissionAdmin, Gen.permissionSysAdmin]

/-- row checker for `write_needs_rw` -/
def writeRowOk (n : String) (e : Effect) : Bool :=
  e != .writesData ||
  match handler? n with
  | none => true
  | some h =>
    match h.dbGates with
    | [] => special? h.name == some (.txSql true)
    | g :: _ => permsWithin g rwCodes

/-- row checker for `read_needs_r` -/
def readRowOk (n : String) (e : Effect) : Bool :=
  e != .readsData ||
  match handler? n with
  | none => true
  | some h =>
    match h.dbGates with
    | [] => special? h.name == some (.txSql false)
    | g :: _ => permsWithin g rCodes

/-- row checker for `admin_needs_admin` -/
def adminRowOk (n : String) (e : Effect) : Bool :=
  e != .admin ||
  match handler? n with
  | none => true
  | some h =>
    match h.dbGates with
    | [] => match special? h.name with
      | some k => k.isAdminKind
      | none => true
    | g :: _ => permsWithin g adminCodes

/-- row checker for `settings_need_admin` -/
def settingsRowOk (n : String) (e : Effect) : Bool :=
  e != .changesSettings ||
  match handler? n with
  | none => true
  | some h =>
    match h.dbGates with
    | [] => match special? h.name with
      | some (.dbAdmin _) => true
      | some _ => false
      | none => true
    | _ :: _ => false

/-- row checker for `unauth_refused` -/
def unauthRowOk (n : String) (e : Effect) : Bool :=
  e == .unauthenticatedOk ||
  match handler? n with
  | none => true
  | some h =>
    match h.dbGates with
    | [] => match special? h.name with
      | some .open_ | some .login => false
      | _ => true
    | _ :: _ => true

/-- `KeepAlive` is only reachable through unary RPCs that the session interceptor covers -/
def keepAliveCovered (r : Gen.Rpc) : Bool :=
  special? r.handler != some .keepAlive || (!r.stream && !(r.service == "ImmuService" && r.wire == "OpenSession"))

/-- row checker for `sysdb_not_writable_partial` -/
def sysdbRowOk (n : String) (e : Effect) : Bool :=
  e != .writesData || sysdbWriteExceptions.contains n ||
  match handler? n with
  | none => true
  | some h =>
    match h.dbGates with
    | [] => false
    | g :: _ => !isMaintenanceMethod g

/-- the sysadmin with a session on the system database and an open transaction -/
def sysadminOnSystemDb : Caller :=
  { kind := .session, state := .valid, db := .system, sysadmin := true, permSel := Gen.permissionSysAdmin,
    permNamed := Gen.permissionSysAdmin, anyAdmin := false, tx := true, multiLogin := false, sqlPriv := true }

def authOnCfg : Config := { auth := true, multidb := true, maint := false }

/-- every listed exception really is a writer that the gate lets through on the system database -/
def sysdbExceptionWitnessed (n : String) : Bool :=
  effect? n == some .writesData &&
  Gen.rpcs.any (fun r => r.handler == n && rpcGate authOnCfg sysadminOnSystemDb r == .allow)

end ImmuModel.Auth
