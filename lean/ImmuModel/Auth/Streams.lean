/-
C18 — long-lived streams (core Lean only).

A streaming RPC outlives the moment its permission gate was evaluated. `Gen/Streams.lean` (regenerated from
pkg/server on every run) says for every streaming handler WHERE `getDBFromCtx` is evaluated: unconditionally at entry
(`entryGates`) and/or unconditionally in every iteration of the loop that receives from the stream (`loopGates`).

`streamNextGate` mirrors what the code does for a FURTHER message received on a stream that is already open: only the
gates on the unconditional path of the receive loop are evaluated again (with whatever the server NOW holds about the
credential); a handler without such a gate serves the message on the strength of the decision taken at call start.
The stream interceptors run once, at call start, and are not part of it.
-/
import ImmuModel.Auth.MatrixLemmas
import ImmuModel.Gen.Streams

namespace ImmuModel.Auth
open ImmuModel

def streamGate? (n : String) : Option Gen.StreamGate := Gen.streamGates.find? (fun g => g.handler == n)

/-- SPECIFICATION: does the stream take more than one REQUEST? A bidirectional stream is a conversation (request,
answer, request, …); a client stream whose receive loop answers inside the loop is one too. A client stream that is
answered once (`SendAndClose`) carries the parts of ONE request; a server stream carries one request message. -/
def multiRequest (g : Gen.StreamGate) : Bool := g.clientStreams && (g.serverStreams || g.replyInLoop)

/-- Gate verdict for a further message on an open stream, as the code evaluates it. -/
def streamNextGate (cfg : Config) (c : Caller) (g : Gen.StreamGate) : Verdict :=
  if g.recvLoop then gatesVerdict cfg c g.loopGates else .allow

/-- Table checker: a multi-request stream re-evaluates, for every received request, a non-empty list of gates, each with
a `methodsPermissions` row and each one of the gates the handler facts (`Gen/Handlers.lean`) list for it. -/
def streamRowOk (g : Gen.StreamGate) : Bool :=
  !multiRequest g ||
    (g.recvLoop && !g.loopGates.isEmpty &&
      g.loopGates.all (fun n => (permsOf n).isSome &&
        match handler? g.handler with
        | some h => h.dbGates.contains n
        | none => false))

/-- Table checker: a streaming handler that uses `getDBFromCtx` at all evaluates it unconditionally before it serves
anything: at entry, or (multi-request streams) in every iteration of the receive loop. -/
def streamEntryOk (g : Gen.StreamGate) : Bool :=
  match handler? g.handler with
  | none => false
  | some h => h.dbGates.isEmpty || !g.entryGates.isEmpty || (g.recvLoop && !g.loopGates.isEmpty)

/-- Table checker: the per-request gates of a multi-request stream that returns (changes) database contents allow only
permission codes ≥ R (≥ RW). -/
def streamEffectOk (g : Gen.StreamGate) : Bool :=
  !multiRequest g ||
    g.loopGates.all (fun n =>
      match effect? g.handler with
      | some .readsData => permsWithin n rCodes
      | some .writesData => permsWithin n rwCodes
      | _ => true)

theorem streamNextGate_allow {cfg : Config} {c : Caller} {g : Gen.StreamGate}
    (hok : streamRowOk g = true) (hm : multiRequest g = true) (h : streamNextGate cfg c g = .allow) :
    ∃ n, n ∈ g.loopGates ∧ (permsOf n).isSome = true ∧ getDBFromCtx cfg c n = .allow := by
  simp only [streamRowOk, hm, Bool.not_true, Bool.false_or, Bool.and_eq_true] at hok
  obtain ⟨⟨hl, hne⟩, hall⟩ := hok
  simp only [streamNextGate, hl, if_true] at h
  cases hg : g.loopGates with
  | nil => simp [hg] at hne
  | cons n ns =>
    refine ⟨n, by simp, ?_, ?_⟩
    · have := List.all_eq_true.mp hall n (by simp [hg])
      simp only [Bool.and_eq_true] at this
      exact this.1
    · rw [hg] at h
      unfold gatesVerdict at h
      cases hx : getDBFromCtx cfg c n <;> simp [hx] at h
      rfl

end ImmuModel.Auth
