/-
C18 — access-control matrix of the immudb gRPC server (core Lean only).

`getDBFromCtx` mirrors pkg/server/server.go `func (s *ImmuServer) getDBFromCtx` branch by branch;
the permission tables, the RPC list and the per-handler gate names are the REGENERATED facts
(`Gen/Perms.lean`, `Gen/Rpcs.lean`, `Gen/Handlers.lean`).  Handlers that do not go through
`getDBFromCtx` are modelled one by one (`Special`, reviewed against pkg/server/{server,user,session,
transaction,keepAlive}.go); the theorem `every_rpc_gated` ties that hand-written list to the extracted
handler facts, so an RPC that is added without a gate entry breaks the build.

`effect?` is the SPECIFICATION: what each RPC does, written from the proto/service semantics.
-/
import ImmuModel.Gen.Perms
import ImmuModel.Gen.Rpcs
import ImmuModel.Gen.Handlers

namespace ImmuModel.Auth
open ImmuModel

/-- Outcome classes of the gate (error CLASSES, not messages). -/
inductive Verdict
  | allow            -- the request reaches the operation (which may still fail on its arguments)
  | denyPerm         -- "permission denied" family (incl. codes.PermissionDenied)
  | denyAuth         -- not logged in / session not found / no session or transaction id
  | denyNoDb         -- "please select a database first"
  | denyMaint        -- ErrNotAllowedInMaintenanceMode
  | denyAuthOff      -- command needs authentication to be enabled
  | denyUnsupported  -- ErrNotSupported
  | denyOther        -- any other refusal before the operation (database vanished, unknown rpc)
  deriving DecidableEq, Repr

def Verdict.toString : Verdict → String
  | .allow => "allow" | .denyPerm => "deny-perm" | .denyAuth => "deny-auth" | .denyNoDb => "deny-nodb"
  | .denyMaint => "deny-maint" | .denyAuthOff => "deny-authoff" | .denyUnsupported => "deny-unsupported"
  | .denyOther => "deny-other"

/-- Server configuration bits read by the gate: `Options.auth`, `s.multidbmode`, `Options.GetMaintenance()`. -/
structure Config where
  auth : Bool
  multidb : Bool
  maint : Bool
  deriving DecidableEq, Repr

/-- Which credential the request metadata carries (`auth.GetAuthTypeFromContext`). -/
inductive AuthKind | none | token | session
  deriving DecidableEq, Repr

/-- State of that credential on the server. `stale`: unknown/closed/expired session id, or a token whose user
is no longer in the logged-in list (logout, deactivation, permission or password change).
`expiredToken`: the token's own expiry has passed ("token has expired"). -/
inductive CredState | valid | stale | expiredToken
  deriving DecidableEq, Repr

/-- Database selected by the credential: `ind < 0`, `ind == sysDBIndex`, a loaded user database, or an index
that `dbList.GetByIndex` no longer resolves. -/
inductive DbSel | none | system | user | missing
  deriving DecidableEq, Repr

/-- Everything the gate reads about the caller. Permissions are the raw codes (`auth.Permission*`). -/
structure Caller where
  kind : AuthKind
  state : CredState          -- meaningless when `kind = none`
  db : DbSel
  sysadmin : Bool            -- `usr.IsSysAdmin`
  permSel : Nat              -- `usr.WhichPermission(<selected db>)` for a non-sysadmin
  permNamed : Nat            -- permission on the database NAMED IN THE REQUEST (Load/Unload/…/CreateUser/UseDatabase)
  anyAdmin : Bool            -- `usr.HasAtLeastOnePermission(PermissionAdmin)`
  tx : Bool                  -- a `transactionid` of an ongoing transaction of this session is supplied
  multiLogin : Bool          -- the logged-in list counts ≥ 2 token logins of this user (only `Logout` looks at it)
  sqlPriv : Bool             -- the user's SQL privileges on the selected database cover the statement (embedded/sql GRANT level)
  deriving DecidableEq, Repr

/-! ### pkg/auth/permissions.go -/

def permsOf (m : String) : Option (List Nat) := Gen.methodsPermissions.lookup m

/-- `auth.HasPermissionForMethod(userPermission, method)` -/
def hasPermissionForMethod (p : Nat) (m : String) : Bool :=
  match permsOf m with
  | none => false
  | some l => l.contains p

/-- `auth.IsMaintenanceMethod(method)` -/
def isMaintenanceMethod (m : String) : Bool := Gen.maintenanceMethods.contains m

/-! ### getLoggedInUserdataFromCtx / getDBFromCtx -/

/-- `getLoggedInUserdataFromCtx` returns a user (no error). -/
def credsOk (c : Caller) : Bool :=
  match c.kind with
  | .none => false
  | _ => c.state == .valid

/-- error text starts with "token has expired" (token path only) -/
def tokenExpired (c : Caller) : Bool := c.kind == .token && c.state == .expiredToken

/-- pkg/server/server.go `getDBFromCtx(ctx, methodName)`, same branch order. -/
def getDBFromCtx (cfg : Config) (c : Caller) (m : String) : Verdict :=
  -- if !s.Options.auth && !s.multidbmode && !s.Options.GetMaintenance() { return defaultdb }
  if !cfg.auth && !cfg.multidb && !cfg.maint then .allow
  -- if s.Options.GetMaintenance() && !auth.IsMaintenanceMethod(methodName)
  else if cfg.maint && !isMaintenanceMethod m then .denyMaint
  -- ind, usr, err := s.getLoggedInUserdataFromCtx(ctx); if err != nil {...}
  else if !credsOk c then
    if tokenExpired c then .denyPerm               -- status.Error(codes.PermissionDenied, …)
    else if cfg.maint && !cfg.auth then .denyNoDb  -- "please select database first"
    else .denyAuth
  else
    match c.db with
    | .none => .denyNoDb                           -- ind < 0
    | .system =>
      -- systemdb is always read-only from external access
      if !isMaintenanceMethod m then .denyPerm
      else if c.sysadmin then .allow
      else if hasPermissionForMethod c.permSel m then .allow else .denyPerm
    | .missing => .denyOther                       -- s.dbList.GetByIndex(ind) fails
    | .user =>
      if c.sysadmin then .allow
      else if hasPermissionForMethod c.permSel m then .allow else .denyPerm

/-- A handler calling `getDBFromCtx` for several names in sequence returns at the first error. -/
def gatesVerdict (cfg : Config) (c : Caller) : List String → Verdict
  | [] => .allow
  | g :: gs =>
    match getDBFromCtx cfg c g with
    | .allow => gatesVerdict cfg c gs
    | v => v

/-- embedded/sql `checkUserPermissions` as reached from a session transaction:
`GetLoggedUser` = `getLoggedInUserdataFromCtx` + `getDBFromCtx(ctx, "SQLQuery")`, then a non read-only statement
is refused for `PermissionReadOnly` (= code 1), then the statement's required privileges must all be held
(`c.sqlPriv`, an input: the privilege lists themselves are not modelled). Every statement of SQLExec / SQLQuery /
TxSQLExec / TxSQLQuery passes here, also with authentication disabled (where it fails: nobody is logged in). -/
def sqlStmtGate (cfg : Config) (c : Caller) (write : Bool) : Verdict :=
  if !credsOk c then .denyAuth
  else match getDBFromCtx cfg c "SQLQuery" with
    | .allow =>
      if write && !c.sysadmin && c.permSel == Gen.permissionR then .denyPerm
      else if !c.sqlPriv then .denyPerm else .allow
    | v => v

/-- gated handlers that hand a statement to the SQL engine (`true`: it may write) -/
def sqlHandlers : List (String × Bool) := [("SQLExec", true), ("UnarySQLQuery", false), ("SQLQuery", false)]

/-! ### Handlers that do not use getDBFromCtx (reviewed one by one) -/

inductive Special
  | open_             -- no credential needed
  | unsupported       -- returns ErrNotSupported for everybody
  | loggedIn          -- any valid credential
  | logout
  | listUsers
  | closeSession
  | keepAlive
  | newTx
  | txControl         -- Commit / Rollback: an ongoing transaction of a valid session
  | txSql (write : Bool)   -- TxSQLExec / TxSQLQuery
  | createDatabase    -- sysadmin only
  | dbAdmin (maintCheck : Bool)  -- sysadmin or Admin on the database named in the request
  | createUser
  | changePermission  -- ChangePermission / ChangeSQLPrivileges
  | adminAnywhere     -- ChangePassword / SetActiveUser
  | useDatabase
  | login             -- Login / OpenSession
  deriving DecidableEq, Repr

/-- One line per handler without a `getDBFromCtx` gate. -/
def specialTable : List (String × Special) := [
  ("Login", .login), ("OpenSession", .login),
  ("Health", .open_), ("ServerInfo", .open_),
  ("UpdateAuthConfig", .unsupported), ("UpdateMTLSConfig", .unsupported),
  ("Logout", .logout),
  ("ListUsers", .listUsers),
  ("DatabaseList", .loggedIn), ("DatabaseListV2", .loggedIn),
  ("CloseSession", .closeSession), ("KeepAlive", .keepAlive),
  ("NewTx", .newTx), ("Commit", .txControl), ("Rollback", .txControl),
  ("TxSQLExec", .txSql true), ("TxSQLQuery", .txSql false),
  ("CreateDatabase", .createDatabase), ("CreateDatabaseWith", .createDatabase), ("CreateDatabaseV2", .createDatabase),
  ("LoadDatabase", .dbAdmin false), ("UnloadDatabase", .dbAdmin false), ("DeleteDatabase", .dbAdmin false),
  ("TruncateDatabase", .dbAdmin false),
  ("UpdateDatabase", .dbAdmin true), ("UpdateDatabaseV2", .dbAdmin true),
  ("CreateUser", .createUser),
  ("ChangePermission", .changePermission), ("ChangeSQLPrivileges", .changePermission),
  ("ChangePassword", .adminAnywhere), ("SetActiveUser", .adminAnywhere),
  ("UseDatabase", .useDatabase)
]

def special? (n : String) : Option Special := specialTable.lookup n

def isAdminOn (c : Caller) : Bool := c.sysadmin || c.permNamed == Gen.permissionAdmin

/-- a usable session: session credential that the session manager still knows -/
def sessionOk (c : Caller) : Bool := c.kind == .session && c.state == .valid

def specialGate (cfg : Config) (c : Caller) : Special → Verdict
  | .open_ => .allow
  | .unsupported => .denyUnsupported
  | .login =>
    -- Login / OpenSession: `if !s.Options.auth { ErrAuthDisabled }`, then the credentials IN THE REQUEST decide
    if !cfg.auth then .denyAuthOff else .allow
  | .loggedIn =>
    -- DatabaseListV2: auth must be on; listLoggedInUserDatabases: "please login"
    if !cfg.auth then .denyAuthOff
    else if !credsOk c then .denyAuth else .allow
  | .logout =>
    -- `if s.removeUserFromLoginList(name) { DropTokenKeysForCtx(ctx) }`: when the last login goes away the token of
    -- the request is looked up; a session credential carries none ("not logged in")
    if !cfg.auth then .denyAuthOff
    else if !credsOk c then .denyAuth
    else if c.kind == .session && !c.multiLogin then .denyAuth else .allow
  | .listUsers =>
    -- in maintenance mode the whole user list is returned without looking at the caller
    if cfg.maint then .allow
    else if !cfg.auth then .denyAuthOff
    else if !credsOk c then .denyAuth else .allow
  | .closeSession =>
    if !cfg.auth then .denyAuthOff
    else if !sessionOk c then .denyAuth else .allow
  | .keepAlive =>
    -- only needs a session id in the metadata (the interceptor already refused unknown ids)
    if c.kind != .session then .denyAuth else .allow
  | .newTx =>
    if cfg.maint then .denyMaint
    else if !sessionOk c then .denyAuth else .allow
  | .txControl =>
    if cfg.maint then .denyMaint
    else if !sessionOk c then .denyAuth
    else if !c.tx then .denyAuth else .allow
  | .txSql write =>
    if cfg.maint then .denyMaint
    else if !sessionOk c then .denyAuth
    else if !c.tx then .denyAuth
    else sqlStmtGate cfg c write
  | .createDatabase =>
    if cfg.maint then .denyMaint
    else if !cfg.auth then .denyAuthOff
    else if !credsOk c then .denyAuth            -- "could not get loggedin user data"
    else if !c.sysadmin then .denyPerm else .allow
  | .dbAdmin maintCheck =>
    if maintCheck && cfg.maint then .denyMaint
    else if !cfg.auth then .denyAuthOff
    else if !credsOk c then .denyAuth
    else if !isAdminOn c then .denyPerm else .allow
  | .createUser =>
    if cfg.maint then .denyMaint
    else if !cfg.auth then .denyAuthOff
    else if !credsOk c then .denyAuth
    else if !isAdminOn c then .denyPerm else .allow
  | .changePermission =>
    -- no `GetAuth()` test here: with auth off the user lookup fails
    if cfg.maint then .denyMaint
    else if !credsOk c then .denyAuth
    else if !isAdminOn c then .denyPerm else .allow
  | .adminAnywhere =>
    if cfg.maint then .denyMaint
    else if !cfg.auth then .denyAuthOff
    else if !credsOk c then .denyAuth
    else if !c.sysadmin && !c.anyAdmin then .denyPerm else .allow
  | .useDatabase =>
    if cfg.auth then
      if !credsOk c then (if tokenExpired c then .denyPerm else .denyAuth)
      else if !c.sysadmin && !(c.permNamed == Gen.permissionAdmin || c.permNamed == Gen.permissionR || c.permNamed == Gen.permissionRW)
        then .denyPerm else .allow
    else if !cfg.maint then .denyAuthOff
    else .allow   -- maintenance: the caller is treated as sysadmin

/-! ### The whole RPC -/

def handler? (n : String) : Option Gen.Handler := Gen.handlers.find? (fun h => h.name == n)

/-- `SessionAuthInterceptor` (unary calls only): a session id that the manager does not know is refused before the
handler runs, except for `/immudb.schema.ImmuService/OpenSession`. -/
def interceptorRefuses (c : Caller) (r : Gen.Rpc) : Bool :=
  !r.stream && c.kind == .session && c.state != .valid &&
    !(r.service == "ImmuService" && r.wire == "OpenSession")

def handlerGate (cfg : Config) (c : Caller) (h : Gen.Handler) : Verdict :=
  match h.dbGates with
  | [] =>
    match special? h.name with
    | none => .denyOther
    | some k => specialGate cfg c k
  | gs =>
    -- handlers of write operations test maintenance mode themselves before getDBFromCtx
    if h.maint && cfg.maint then .denyMaint
    else match gatesVerdict cfg c gs with
      | .allow =>
        -- document write operations fetch the user name after the gate: "could not get loggedin user data"
        if h.loggedIn && !credsOk c then .denyAuth
        -- SearchDocuments keeps its paginated reader in the session: `sessions.GetSessionIDFromContext` after the gate
        else if h.sess && c.kind != .session then .denyAuth
        else match sqlHandlers.lookup h.name with
          | some w => sqlStmtGate cfg c w
          | none => .allow
      | v => v

/-- Gate verdict of one RPC for one caller. -/
def rpcGate (cfg : Config) (c : Caller) (r : Gen.Rpc) : Verdict :=
  if interceptorRefuses c r then .denyAuth
  else match handler? r.handler with
    | none => .denyOther      -- no implementation on *ImmuServer: Unimplemented
    | some h => handlerGate cfg c h

/-! ### Specification: what each RPC does -/

inductive Effect
  | readsData          -- returns contents/state/settings of the selected database
  | writesData         -- changes the contents of the selected database
  | changesSettings    -- changes settings / loaded state of the database named in the request
  | admin              -- user, database-lifecycle or index administration
  | sessionOnly        -- needs a valid login only; touches the caller's own session/login state or lists what the caller may see
  | unauthenticatedOk  -- may be called without credentials
  deriving DecidableEq, Repr

/-- One line per RPC handler (ImmuService, DocumentService; the AuthorizationService methods delegate to the
ImmuService handlers of the same name). -/
def effectTable : List (String × Effect) := [
  -- users
  ("ListUsers", .sessionOnly),          -- non-admins only get their own record
  ("CreateUser", .admin),
  ("ChangePassword", .admin),
  ("ChangePermission", .admin),
  ("ChangeSQLPrivileges", .admin),
  ("SetActiveUser", .admin),
  ("UpdateAuthConfig", .admin),
  ("UpdateMTLSConfig", .admin),
  -- login / sessions / transactions
  ("OpenSession", .unauthenticatedOk),
  ("CloseSession", .sessionOnly),
  ("KeepAlive", .sessionOnly),
  ("NewTx", .sessionOnly),
  ("Commit", .sessionOnly),             -- commits what TxSQLExec was allowed to stage
  ("Rollback", .sessionOnly),
  ("TxSQLExec", .writesData),
  ("TxSQLQuery", .readsData),
  ("Login", .unauthenticatedOk),
  ("Logout", .sessionOnly),
  -- key-value
  ("Set", .writesData),
  ("VerifiableSet", .writesData),
  ("Get", .readsData),
  ("VerifiableGet", .readsData),
  ("Delete", .writesData),
  ("GetAll", .readsData),
  ("ExecAll", .writesData),
  ("Scan", .readsData),
  ("Count", .readsData),
  ("CountAll", .readsData),
  ("TxById", .readsData),
  ("VerifiableTxById", .readsData),
  ("TxScan", .readsData),
  ("History", .readsData),
  ("ServerInfo", .unauthenticatedOk),
  ("Health", .unauthenticatedOk),
  ("DatabaseHealth", .readsData),
  ("CurrentState", .readsData),
  ("SetReference", .writesData),
  ("VerifiableSetReference", .writesData),
  ("ZAdd", .writesData),
  ("VerifiableZAdd", .writesData),
  ("ZScan", .readsData),
  -- databases
  ("CreateDatabase", .admin),
  ("CreateDatabaseWith", .admin),
  ("CreateDatabaseV2", .admin),
  ("LoadDatabase", .changesSettings),
  ("UnloadDatabase", .changesSettings),
  ("DeleteDatabase", .admin),
  ("DatabaseList", .sessionOnly),       -- lists only the databases the caller has a permission on
  ("DatabaseListV2", .sessionOnly),
  ("UseDatabase", .sessionOnly),        -- selecting needs some permission on the named database (useDatabase_needs_perm)
  ("UpdateDatabase", .changesSettings),
  ("UpdateDatabaseV2", .changesSettings),
  ("GetDatabaseSettings", .readsData),
  ("GetDatabaseSettingsV2", .readsData),
  ("FlushIndex", .admin),
  ("CompactIndex", .admin),
  ("TruncateDatabase", .admin),
  -- SQL
  ("SQLExec", .writesData),
  ("UnarySQLQuery", .readsData),
  ("SQLQuery", .readsData),
  ("ListTables", .readsData),
  ("DescribeTable", .readsData),
  ("VerifiableSQLGet", .readsData),
  -- streams
  ("StreamGet", .readsData),
  ("StreamSet", .writesData),
  ("StreamVerifiableGet", .readsData),
  ("StreamVerifiableSet", .writesData),
  ("StreamScan", .readsData),
  ("StreamZScan", .readsData),
  ("StreamHistory", .readsData),
  ("StreamExecAll", .writesData),
  -- replication
  ("ExportTx", .readsData),
  ("StreamExportTx", .readsData),
  ("ReplicateTx", .writesData),         -- appends the received transactions to the selected database
  -- documents
  ("CreateCollection", .writesData),
  ("GetCollections", .readsData),
  ("GetCollection", .readsData),
  ("UpdateCollection", .writesData),
  ("DeleteCollection", .writesData),
  ("AddField", .writesData),
  ("RemoveField", .writesData),
  ("CreateIndex", .writesData),
  ("DeleteIndex", .writesData),
  ("InsertDocuments", .writesData),
  ("ReplaceDocuments", .writesData),
  ("DeleteDocuments", .writesData),
  ("SearchDocuments", .readsData),
  ("CountDocuments", .readsData),
  ("AuditDocument", .readsData),
  ("ProofDocument", .readsData)
]

def effect? (n : String) : Option Effect := effectTable.lookup n

/-- KNOWN DEFECT (DESIGN.md §9 K4, confirmed on the real server by the harness): the data-WRITING RPCs that the gate
lets through when the SYSTEM database is selected, because their gate name is listed in `maintenanceMethods`
(`TxSQLExec`: its statements are gated by the maintenance method "SQLQuery"). `sysdb_exceptions_exact` proves that
this list is exact for the regenerated tables: each entry is allowed for the sysadmin, every other writer is refused. -/
def sysdbWriteExceptions : List String := [
  "TxSQLExec", "ReplicateTx",
  "CreateCollection", "UpdateCollection", "DeleteCollection", "AddField", "RemoveField", "CreateIndex", "DeleteIndex",
  "InsertDocuments", "ReplaceDocuments", "DeleteDocuments"
]

/-! ### Consistency of the reviewed list with the extracted handler facts -/

/-- What the extracted body facts must show for a handler classified as `k`. -/
def flagsConsistent (k : Special) (h : Gen.Handler) : Bool :=
  match k with
  | .open_ => !h.loggedIn && !h.sess
  | .unsupported => !h.loggedIn && !h.sess && !h.sysadmin && !h.hasPerm
  | .login => h.authOpt
  | .loggedIn | .logout | .listUsers => h.loggedIn
  | .closeSession | .keepAlive | .newTx | .txControl | .txSql _ => h.sess
  | .createDatabase => h.loggedIn && h.sysadmin
  | .dbAdmin _ | .createUser | .changePermission | .adminAnywhere | .useDatabase =>
    h.loggedIn && h.sysadmin && h.hasPerm

/-- An RPC is gated if its handler exists and either every `getDBFromCtx` name it uses has a row in
`methodsPermissions`, or it is in the reviewed list and its body mentions the primitives that list entry relies on. -/
def gatedOk (r : Gen.Rpc) : Bool :=
  match handler? r.handler with
  | none => false
  | some h =>
    match h.dbGates with
    | [] => match special? h.name with
      | none => false
      | some k => flagsConsistent k h
    | gs => gs.all (fun g => (permsOf g).isSome) && (special? h.name).isNone

end ImmuModel.Auth
