#!/bin/sh
# Offline build of the whole framework from files on disk.
set -e
cd "$(dirname "$0")"
export GOFLAGS=-mod=mod GOPROXY=off
mkdir -p .build
(cd extract && go build -o ../.build/extract .)
./.build/extract -repo "${VERIF_REPO:-/repo}" -out lean/ImmuModel/Gen
python3 harness/genmod.py "${VERIF_REPO:-/repo}"
(cd harness && go build -tags verif -o ../.build/vh ./cmd/vh)
(cd lean && lake build ImmuModel driver)
echo setup-ok
