#!/bin/sh
# runs every seeded change against the property's own check (4 at a time)
cd /verif
ls seeded | grep -E "^c[0-9][0-9]-" > /tmp/seeded_ids.txt
rm -f /tmp/runs/seeded_sweep.log
run_one() { id=$1; P=$(python3 -c "import json;print(json.load(open('/verif/seeded/$id/meta.json'))['property'])"); /verif/tools_mt.sh $id $P 1 2>&1 | tail -1 | cut -c1-160 >> /tmp/runs/seeded_sweep.log; git -C /repo worktree remove --force /tmp/mut/m-$id 2>/dev/null; rm -rf /tmp/mt/$id /tmp/mt/$id.log; }
n=0
for id in $(cat /tmp/seeded_ids.txt); do run_one $id & n=$((n+1)); if [ $((n%4)) -eq 0 ]; then wait; fi; done; wait
echo SEEDEDDONE >> /tmp/runs/seeded_sweep.log
