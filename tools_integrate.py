#!/usr/bin/env python3
"""integrate.py <agent-verif-dir> <Cxx>: copy an agent's deliverables into /verif.
 - files that exist only in the agent copy are copied;
 - known shared files are merged: known_findings.json (union by signature), mkmanifest.py (CHECKS entry),
   DESIGN.md (the '### Cxx — as built' section), lean/Driver/Main.lean (import, state field, dispatch lines with the cxx token);
 - any other differing file is reported (not touched)."""
import sys, os, re, json, shutil, filecmp
A, P = sys.argv[1].rstrip('/'), sys.argv[2]
V = '/verif'
SKIP_DIRS = {'.build', '.lake', 'evidence', 'replays', '.git', 'seeded', 'corpus'}
SHARED = {'DESIGN.md', 'MANIFEST.json', 'check', 'harness/go.mod', 'harness/go.sum', 'known_findings.json', 'lean/Driver/Main.lean',
          'mkmanifest.py', 'setup.sh', 'lean/lake-manifest.json', 'tools_integrate.py', 'lean/ImmuModel/Gen/Consts.lean'}
report = []
for root, dirs, files in os.walk(A):
    dirs[:] = [d for d in dirs if d not in SKIP_DIRS]
    for f in files:
        ap = os.path.join(root, f); rel = os.path.relpath(ap, A); vp = os.path.join(V, rel)
        if not os.path.exists(vp):
            os.makedirs(os.path.dirname(vp), exist_ok=True); shutil.copy2(ap, vp); report.append(('new', rel))
        elif not filecmp.cmp(ap, vp, shallow=False) and rel not in SHARED:
            report.append(('DIFFERS', rel))
# known findings
ak = json.load(open(os.path.join(A, 'known_findings.json'))); vk = json.load(open(os.path.join(V, 'known_findings.json')))
have = {k['signature'] for k in vk['known']}
for k in ak.get('known', []):
    if k['signature'] not in have and k.get('property') == P:
        vk['known'].append(k); report.append(('known-finding', k['signature']))
json.dump(vk, open(os.path.join(V, 'known_findings.json'), 'w'), indent=1, ensure_ascii=False)
# mkmanifest CHECKS entry
am = open(os.path.join(A, 'mkmanifest.py')).read(); vm = open(os.path.join(V, 'mkmanifest.py')).read()
m = re.search(r'^ "%s": dict\((?:.|\n)*?\n  design="[^"]*"\),\n' % P, am, re.M)
if m and ('"%s": dict(' % P) not in vm:
    vm = vm.replace('CHECKS = {\n', 'CHECKS = {\n' + m.group(0), 1); open(os.path.join(V, 'mkmanifest.py'), 'w').write(vm); report.append(('manifest-entry', P))
elif not m:
    report.append(('NO-MANIFEST-ENTRY-FOUND', P))
# DESIGN section
ad = open(os.path.join(A, 'DESIGN.md')).read(); vd = open(os.path.join(V, 'DESIGN.md')).read()
i = ad.find('### %s — as built' % P)
if i < 0: i = ad.find('### %s - as built' % P)
if i >= 0 and ('### %s — as built' % P) not in vd:
    sec = ad[i:]
    j = re.search(r'\n### C\d\d — as built', sec[10:])
    if j: sec = sec[:10 + j.start()]
    open(os.path.join(V, 'DESIGN.md'), 'a').write('\n' + sec.rstrip() + '\n'); report.append(('design-section', P))
# Driver/Main.lean
aM = open(os.path.join(A, 'lean/Driver/Main.lean')).read(); vM = open(os.path.join(V, 'lean/Driver/Main.lean')).read()
tok = P.lower()
for line in aM.split('\n'):
    if line.strip() and line not in vM and (('Driver.%s' % P) in line or ('"%s"' % tok) in line or re.search(r'\b%s\b' % tok, line)):
        if line.startswith('import '):
            vM = vM.replace('import Driver.C08\n', 'import Driver.C08\n' + line + '\n', 1)
        elif re.match(r'\s+%s\s*:' % tok, line):
            vM = vM.replace('  c08 : C08.St := {}\n', '  c08 : C08.St := {}\n' + line + '\n', 1)
        elif line.lstrip().startswith('|'):
            vM = vM.replace('  | ["sha", h]', line + '\n  | ["sha", h]', 1)
        else:
            report.append(('MAIN-LINE-NOT-PLACED', line))
        report.append(('main.lean', line.strip()[:80]))
open(os.path.join(V, 'lean/Driver/Main.lean'), 'w').write(vM)
for r in report: print(*r)
