#!/bin/sh
# usage: tools_mt.sh <seeded-id> <Cxx> [seed] [tier]  — runs /verif's check (a private copy) against a scratch worktree of /repo@main + seeded/<id>/patch.diff
ID=$1; P=$2; SEED=${3:-1}; TIER=${4:-quick}; W=/tmp/mut/m-$ID; C=/tmp/mt/$ID
[ -d $W ] || git -C /repo worktree add -q --detach $W main
git -C $W checkout -q -- . ; git -C $W clean -fdq -e _mutant; git -C $W checkout -q --detach main
git -C $W apply /verif/seeded/$ID/patch.diff || { echo "$ID: patch does not apply on main"; exit 2; }
mkdir -p $C && rsync -a --delete --exclude .git /verif/ $C/
cd $C && VERIF_SEED=$SEED VERIF_REPO=$W ./check $P $TIER > $C.log 2>&1; rc=$?
echo "$ID $P seed=$SEED exit=$rc :: $(grep -v 'KNOWN-FINDING\|^immudb' $C.log | tail -2 | tr '\n' ' ')"
